"""Engine jsonstr (C15 layers b and c): Data::jsonEscape / jsonUnescape and the token walk of Data::fromJSON,
extracted mechanically to C on every run (route R3).  All obligations here are BOUNDED and are reported in the
bounded_* counters only."""
import json
import os
import re
import subprocess
import sys

HERE = os.path.dirname(os.path.abspath(__file__))
sys.path.insert(0, os.path.join(HERE, '..', '..', 'lib'))
sys.path.insert(0, HERE)
from concurrent.futures import ThreadPoolExecutor
import cbmcrun
import common
import rules
import json_extract


def witness_bytes(trace):
    n, b = None, {}
    for st in trace or []:
        lhs = st.get('lhs') or ''
        if lhs == 'wit_len' and st.get('binary'):
            n = int(st['binary'], 2)
        m = re.match(r'wit_s\[(\d+)l?\]$', lhs)
        if m and st.get('binary'):
            b[int(m.group(1))] = int(st['binary'], 2) & 0xff
    if n is None:
        return None
    return bytes(b.get(i, 0) for i in range(n))


def witness_tokens(trace):
    w = {}
    for st in trace or []:
        lhs = st.get('lhs') or ''
        m = re.match(r'wit_(tt|ts|te)\[(\d+)l?\]$', lhs)
        if m and st.get('binary'):
            v = int(st['binary'], 2)
            if v >= 1 << 31:
                v -= 1 << 32
            w.setdefault(int(m.group(2)), {})[m.group(1)] = v
        if lhs == 'wit_ntok' and st.get('binary'):
            w['n'] = int(st['binary'], 2)
    n = w.get('n')
    if n is None:
        return None
    return [(w.get(i, {}).get('tt'), w.get(i, {}).get('ts'), w.get(i, {}).get('te')) for i in range(n)]


def text_from_tokens(toks, length):
    """a JSON-ish text whose tokenisation is the witness token array (for the native replay of a token-level failure)"""
    if not toks or length is None or length > 64:
        return None
    buf = [' '] * length
    try:
        for ty, s, e in toks:
            if ty in (1, 2):
                buf[s] = '{' if ty == 1 else '['
                buf[e - 1] = '}' if ty == 1 else ']'
            elif ty == 3:
                buf[s - 1] = '"'
                buf[e] = '"'
                for k in range(s, e):
                    buf[k] = 's'
            else:
                for k in range(s, e):
                    buf[k] = '1'
    except (IndexError, TypeError):
        return None
    return ''.join(buf).encode()


def expected_shape(toks):
    """shape of the value the token array denotes (tree by extents; object members alternate key, value).
    Empty containers and atoms are 'a' (Data cannot tell an empty container from an empty atom)."""
    def build(i):
        ty, s, e = toks[i]
        if ty not in (1, 2):
            return 'a', i + 1
        kids = []
        j = i + 1
        while j < len(toks) and toks[j][1] < e:
            sh, j = build(j)
            kids.append(sh)
        if not kids:
            return 'a', j
        if ty == 2:
            return '[' + ''.join(kids) + ']', j
        if len(kids) % 2:
            raise ValueError('odd number of object members')
        return '{' + ''.join(sorted(kids[1::2])) + '}', j
    try:
        sh, _ = build(0)
        return sh
    except (ValueError, IndexError, TypeError):
        return None


def build_replay(part):
    p = subprocess.run([os.path.join(common.VERIF, 'lib/ensure_build.sh'), 'uscxml'], capture_output=True, text=True)
    if p.returncode != 0:
        part.errors.append('cannot build libuscxml for the native replay: ' + (p.stdout + p.stderr)[-600:])
        return None
    exe = os.path.join(common.WORK, 'bin', 'replay_json')
    os.makedirs(os.path.dirname(exe), exist_ok=True)
    cmd = ['g++', '-std=c++11', '-g', '-O1', '-fsanitize=address', '-w', '-I', os.path.join(common.REPO, 'src'), '-I', common.BUILD,
           '-I', os.path.join(common.REPO, 'contrib/src'), os.path.join(common.VERIF, 'replay', 'replay_json.cpp'),
           '-L', os.path.join(common.BUILD, 'lib'), '-luscxml', '-Wl,-rpath,' + os.path.join(common.BUILD, 'lib'), '-o', exe]
    p = subprocess.run(cmd, capture_output=True, text=True)
    if p.returncode != 0:
        part.errors.append('cannot build replay_json: ' + p.stderr[-600:])
        return None
    return exe


def native(exe, mode, data, extra=None):
    env = dict(os.environ, ASAN_OPTIONS='detect_leaks=0')
    try:
        p = subprocess.run([exe, mode, data.hex()] + ([extra] if extra else []), capture_output=True, text=True, env=env, timeout=120, errors='replace')
    except subprocess.TimeoutExpired:
        return True, 'native run did not terminate within 120 s'
    out = (p.stdout + p.stderr).strip()
    crashed = p.returncode not in (0, 1) or 'AddressSanitizer' in out
    return (p.returncode != 0 or crashed), out[-500:]


def run(tier):
    part = common.Part('jsonstr')
    wd = os.path.join(common.WORK, 'json')
    os.makedirs(wd, exist_ok=True)
    Ls = 4 if tier == 'quick' else 6       # string layer: |s| <= Ls, escaped capacity 2*Ls+2
    Lw = 8 if tier == 'quick' else 10      # token-level walk: text length <= Lw (token budget <= Lw/2)
    Lj = 5 if tier == 'quick' else 7       # real jsmn structure check
    part.bounds += ['BOUNDED string layer: all byte strings s without NUL, |s| <= %d (full 8-bit alphabet)' % Ls,
                    'BOUNDED token walk: text length <= %d, every token array the jsmn_parse contract allows within the budget Data::fromJSON computes (<= %d tokens)' % (Lw, Lw // 2),
                    'BOUNDED structure of the tokeniser output: real jsmn.c on all texts of length <= %d over the 13 byte classes the tokeniser distinguishes, budgets <= %d' % (Lj, Lj + 2)]
    part.trusted += [cbmcrun.tool_versions(), 'R3 extraction rules (json_extract.py, rules.py) and the vstr shim ("C" locale)']
    part.assumptions += [
        'jsonstr: strings contain no NUL byte (they cross a c_str() interface); locale "C" for boost::trim_copy',
        'jsonstr: token walk - the payload of Data (atoms, compound/array containers) is dropped; kept: every index, every stack operation, every read of the token array, the token-budget loop',
        'jsonstr: token walk - jsmn_parse is replaced by its contract tokens_ok: extents inside the input, order by start, laminar nesting of extents and the zero sentinel are PROVED in layer (a) for inputs of any length (TOKWF, LAMINAR, FIRST_OK, TOKEQ_OLD); only that size > 0 exactly for containers with children is checked BOUNDED against the real jsmn.c (h_jsmn_structure)',
        'jsonstr: NOT covered - Data::toJSON and the building of Data trees (std::map/std::list recursion), numbers / INTERPRETED atoms, Event <-> Data',
    ]
    try:
        p1, p2, info = json_extract.write_all(common.REPO, wd)
    except rules.ExtractionError as e:
        part.errors.append('extraction broken: %s' % e)
        return [part]
    for nm, key in (('Data::jsonEscape', 'escape'), ('Data::jsonUnescape', 'unescape'), ('Data::fromJSON (token walk)', 'walk')):
        i = info[key]
        part.functions.append({'function': nm, 'file': '%s:%d-%d' % (json_extract.SRC, i['lines'][0], i['lines'][1]),
                               'route': 'R3 extract -> work/json/*.c (origin map work/json/json_origin.txt)',
                               'dropped': i.get('dropped', 'heap allocation of std::string / std::stringstream')})
    jsmn_dir = os.path.join(common.REPO, 'contrib/src/jsmn')
    harness = os.path.join(HERE, 'harness_json.c')
    base = {'JSMN_C': '"%s/jsmn.c"' % jsmn_dir, 'JSON_STR': '"%s"' % p1, 'JSON_WALK': '"%s"' % p2}
    jobs = []
    def job(name, entry, L, cap, extra=None, timeout=3000):
        d = dict(base, L=str(L), VSTR_CAP=str(cap))
        if extra:
            d.update(extra)
        return cbmcrun.Job(name, [harness], entry, wd, dfcc=False, includes=[HERE, jsmn_dir], defines=d,
                           cbmc_flags=['--drop-unused-functions', '--unwind', str(cap + 4), '--unwinding-assertions', '--object-bits', '16'],
                           timeout=timeout, mem_gb=20, meta={'bound': L})
    jobs.append(job('json_roundtrip', 'h_json_roundtrip', Ls, 2 * Ls + 2))
    jobs.append(job('json_unescape_any', 'h_json_unescape_any', Ls + 2, Ls + 2))
    jobs.append(job('tojson_atom', 'h_tojson_atom', Ls, 2 * Ls + 4))
    jobs.append(job('tojson_key', 'h_tojson_key', Ls, 2 * Ls + 12))
    jobs.append(job('json_walk_tokens', 'h_json_walk_tokens', Lw, Lw + 2, {'WALK_TOKENS': None}))
    jobs.append(job('jsmn_structure', 'h_jsmn_structure', Lj, Lj + 2))
    with ThreadPoolExecutor(len(jobs)) as ex:
        results = list(ex.map(cbmcrun.verify, jobs))
    exe = None
    for r in results:
        part.add_job(r, bounded=True)
        if r['status'] != 'ok':
            continue
        for f in r['failed']:
            if f['description'].startswith('BOUND'):
                part.errors.append('%s: harness capacity exceeded (%s)' % (r['name'], f['description']))
                continue
            if exe is None:
                exe = build_replay(part) or False
            tr = f.get('trace')
            data = witness_bytes(tr)
            toks = witness_tokens(tr) if r['name'] == 'json_walk_tokens' else None
            mode = 'rt' if r['name'] in ('json_roundtrip', 'tojson_atom', 'tojson_key') else 'parse'
            note = ''
            if toks:
                t2 = text_from_tokens(toks, len(data) if data is not None else None)
                if t2:
                    data, note = t2, 'text reconstructed from the witness token array %s; ' % (toks,)
            reproduced, out = False, 'no witness input in the trace'
            shape = expected_shape(toks) if toks and 'O_walk_nesting' in f['description'] else None
            if data is not None and exe and shape:
                mode = 'shape'
                reproduced, out = native(exe, mode, data, shape)
            elif 'O_walk_unescape' in f['description'] and exe:
                # the walk drops the payload: replay the round trip of a key / value that needs unescaping
                mode, data, note = 'rt', b'a"b\\c\n', 'fixed witness string with characters that toJSON escapes; '
                reproduced, out = native(exe, mode, data)
            elif data is not None and exe:
                reproduced, out = native(exe, mode, data)
            payload = {'property': 'C15', 'engine': 'jsonstr', 'harness': r['name'], 'obligation': f['property'], 'description': f['description'],
                       'location': f.get('location'), 'input_hex': data.hex() if data is not None else None,
                       'input': data.decode('latin-1') if data is not None else None, 'mode': mode, 'witness_tokens': toks, 'expected_shape': shape,
                       'native_replay_output': note + out}
            path = common.write_replay('C15', 'json_%s_%s' % (r['name'], f['property']), payload)
            part.violations.append({'obligation': '%s %s' % (r['name'], f['property']), 'replay': path, 'reproduced': reproduced,
                                    'what': '%s | input=%r | %s%s' % (f['description'], payload['input'], note, out.replace('\n', ' ; ')[:300])})
    return [part]


def replay(path):
    d = json.load(open(path))
    part = common.Part('jsonstr')
    exe = build_replay(part)
    if not exe or d.get('input_hex') is None:
        print(part.errors or 'no input recorded')
        return 2
    rep, out = native(exe, d.get('mode', 'parse'), bytes.fromhex(d['input_hex']), d.get('expected_shape'))
    print(out)
    return 1 if rep else 0


if __name__ == '__main__':
    import time
    t0 = time.time()
    ps = run(sys.argv[1] if len(sys.argv) > 1 else 'quick')
    for p in ps:
        print(p.bounded_obligations, p.bounded_discharged, p.errors, [(j['harness'], j['time_s'].get('cbmc')) for j in p.jobs])
        for v in p.violations:
            print(v['obligation'], v['reproduced'], v['what'][:400])
    print(time.time() - t0)
