"""Engine namematch (C12): the two hand-written event-descriptor scanners, extracted to C on every
run (route R3) and checked, bounded, against a spec function written from Recommendation 3.12.1."""
import json
import os
import re
import subprocess
import sys

HERE = os.path.dirname(os.path.abspath(__file__))
sys.path.insert(0, os.path.join(HERE, '..', '..', 'lib'))
sys.path.insert(0, HERE)
from concurrent.futures import ThreadPoolExecutor
import cbmcrun
import common
import rules
import nm_extract


def witness_from_trace(trace):
    w = {}
    for st in trace or []:
        lhs = st.get('lhs') or ''
        m = re.match(r'wit_(d|n)\[(\d+)l?\]$', lhs)
        if m and st.get('binary'):
            w.setdefault(m.group(1), {})[int(m.group(2))] = int(st['binary'], 2) & 0xff
        m = re.match(r'wit_(d|n)len$', lhs)
        if m and st.get('binary'):
            w[m.group(1) + 'len'] = int(st['binary'], 2)
    out = {}
    for k in ('d', 'n'):
        if k + 'len' not in w:
            return None
        out[k] = bytes(w.get(k, {}).get(i, 0) for i in range(w[k + 'len']))
    return out


def build_replay(wd, infos, cap, part):
    repo = common.REPO
    # verbatim C++ text of the scaffolding copy
    scaf = [i for i in infos if i['cname'] == 'nm_scaffold'][0]
    lines = open(os.path.join(repo, scaf['path']), errors='replace').read().split('\n')
    first, last = scaf['lines']
    inc = os.path.join(wd, 'nm_scaffold_native.inc')
    open(inc, 'w').write('\n'.join(lines[first - 1:last]) + '\n')
    out = os.path.join(common.WORK, 'bin', 'replay_nm')
    os.makedirs(os.path.dirname(out), exist_ok=True)
    cfg = None
    for c in (os.path.join(common.BUILD, 'uscxml'), os.path.join(repo, '_build', 'uscxml')):
        if os.path.exists(os.path.join(c, 'config.h')):
            cfg = os.path.dirname(c)
            break
    cmd = ['g++', '-std=c++11', '-g', '-O1', '-fsanitize=address,undefined', '-w',
           '-I', os.path.join(repo, 'src'), '-I', HERE, '-DVSTR_CAP=%d' % cap,
           '-DREAL_STRING_CPP="%s"' % os.path.join(repo, 'src/uscxml/util/String.cpp'),
           '-DNM_SCAFFOLD_INC="%s"' % inc]
    if cfg:
        cmd += ['-I', cfg]
    cmd += [os.path.join(common.VERIF, 'replay', 'replay_nm.cpp'), '-o', out]
    p = subprocess.run(cmd, capture_output=True, text=True)
    if p.returncode != 0:
        part.errors.append('cannot build native replay for nameMatch: ' + p.stderr[-1500:])
        return None
    return out


def native(rp, d, n):
    env = dict(os.environ, ASAN_OPTIONS='detect_leaks=0')
    p = subprocess.run([rp, d.hex(), n.hex()], capture_output=True, text=True, env=env, errors='replace')
    return p.returncode, (p.stdout + p.stderr).strip()


def run(tier):
    part = common.Part('namematch')
    wd = os.path.join(common.WORK, 'nm')
    os.makedirs(wd, exist_ok=True)
    L = 6 if tier == 'quick' else 8
    part.bounds.append('BOUNDED: every descriptor list and every event name of length <= %d over the full 8-bit alphabet (NUL excluded); all loops unwound %d times with unwinding assertions' % (L, L + 3))
    part.trusted += [cbmcrun.tool_versions(), 'R3 extraction rules (engines/extract/rules.py) and the vstr shim (engines/extract/vstr.h): std::string -> fixed-capacity value string, "C" locale for isspace and boost::iequals',
                     'spec function nm_spec.h transcribed from Recommendation 3.12.1']
    part.assumptions += ['namematch: strings contain no NUL byte; locale is "C"',
                         'namematch: functional obligations only for well-formed names (tok(.tok)*) and descriptor lists ("*" | tok(.tok)*(".*"|".")?, separated by space/tab/CR/LF); memory-safety obligations for arbitrary strings',
                         'namematch: the statically resolved matches in Promela/VHDL output (Trie.cpp, std::map recursion) are outside R3 and NOT covered']
    try:
        cpath, infos = nm_extract.write_all(common.REPO, wd)
    except rules.ExtractionError as e:
        part.errors.append('extraction broken: %s' % e)
        return part
    for i in infos:
        part.functions.append({'function': i['what'], 'file': '%s:%d-%d' % (i['path'], i['lines'][0], i['lines'][1]),
                               'route': 'R3 extract -> %s in work/nm/nm_extracted.c (origin map work/nm/nm_origin.txt)' % i['cname'],
                               'rules_fired': i['rules_fired'],
                               'dropped': 'heap allocation of std::string, locale; the #else branch of "#if 1" (not compiled by the repository either)'})
    jobs = []
    for h in ('h_nm_core', 'h_nm_scaffold', 'h_nm_same', 'h_nm_forward'):
        jobs.append(cbmcrun.Job(h, [os.path.join(HERE, 'harness_nm.c')], h, wd, dfcc=False, includes=[HERE],
                                defines={'NM_EXTRACTED': '"%s"' % cpath, 'L': str(L), 'VSTR_CAP': str(L)},
                                cbmc_flags=['--drop-unused-functions', '--unwind', str(L + 3), '--unwinding-assertions'],
                                timeout=3000, mem_gb=24, meta={'bound_L': L}))
    with ThreadPoolExecutor(len(jobs)) as ex:
        results = list(ex.map(cbmcrun.verify, jobs))
    rp = None
    for r in results:
        part.add_job(r, bounded=True)
        if r['status'] != 'ok':
            continue
        for f in r['failed']:
            if f['description'].startswith('BOUND'):
                part.errors.append('%s: capacity bound of the shim hit (%s)' % (r['name'], f['description']))
                continue
            if rp is None:
                rp = build_replay(wd, infos, L, part)
            w = witness_from_trace(f.get('trace'))
            reproduced, nat = False, 'no witness strings in the trace'
            if w and rp:
                rc, nat = native(rp, w['d'], w['n'])
                reproduced = rc == 1 and 'REPRODUCED' in nat
            payload = {'property': 'C12', 'engine': 'namematch', 'harness': r['name'], 'obligation': f['property'],
                       'description': f['description'], 'location': f.get('location'),
                       'descs_hex': w['d'].hex() if w else None, 'name_hex': w['n'].hex() if w else None,
                       'descs': w['d'].decode('latin-1') if w else None, 'name': w['n'].decode('latin-1') if w else None,
                       'native_replay_output': nat, 'bound_L': L}
            path = common.write_replay('C12', '%s_%s' % (r['name'], f['property']), payload)
            part.violations.append({'obligation': '%s %s' % (r['name'], f['property']), 'replay': path, 'reproduced': reproduced,
                                    'what': '%s | descs=%r name=%r | %s' % (f['description'], payload['descs'], payload['name'], nat.replace('\n', ' ; ')[:400])})
    return part


def replay(path):
    d = json.load(open(path))
    part = common.Part('namematch')
    wd = os.path.join(common.WORK, 'nm')
    cpath, infos = nm_extract.write_all(common.REPO, wd)
    rp = build_replay(wd, infos, max(8, d.get('bound_L', 8)), part)
    if not rp or not d.get('descs_hex') is not None:
        print(part.errors or 'no witness in replay file')
        return 2
    rc, out = native(rp, bytes.fromhex(d['descs_hex']), bytes.fromhex(d['name_hex']))
    print(out)
    return 1 if rc == 1 else 0


if __name__ == '__main__':
    import time
    t0 = time.time()
    p = run(sys.argv[1] if len(sys.argv) > 1 else 'quick')
    print(p.bounded_obligations, p.bounded_discharged, p.errors)
    for v in p.violations:
        print(v)
    print(time.time() - t0)
