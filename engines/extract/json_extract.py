"""R3 extraction for C15 layers (b) and (c) from src/uscxml/messages/Data.cpp:
  (b) Data::jsonEscape, Data::jsonUnescape  -> C over vstr (generic string rules)
  (c) Data::fromJSON                        -> C over vstr + the REAL jsmn.c; the payload of Data is dropped,
      every index, every stack operation and every read of the token array is kept and guarded:
        dataStack  (std::list<Data*>)      -> ghost depth; back()/pop_back() assert non-empty
        tokenStack (std::list<jsmntok_t>)  -> fixed array stack; back()/pop_back() assert non-empty
        t[currTok]                          -> T_AT(currTok): asserts currTok < allocated element count
        trimmed.substr(a, n)                -> vstr_substr (asserts a <= size(): else std::out_of_range)
      Each line of the function must be consumed by exactly one rule of LINE_RULES (else ExtractionError)."""
import os
import re
import sys
sys.path.insert(0, os.path.dirname(os.path.abspath(__file__)))
import rules

SRC = 'src/uscxml/messages/Data.cpp'
SIG_ESC = r'\bstd::string\s+Data::jsonEscape\s*\(\s*const\s+std::string\s*&\s*(\w+)\s*\)\s*'
SIG_UNESC = r'\bstd::string\s+Data::jsonUnescape\s*\(\s*const\s+std::string\s*&\s*(\w+)\s*\)\s*'
SIG_FROM = r'\bData\s+Data::fromJSON\s*\(\s*const\s+std::string\s*&\s*(\w+)\s*\)\s*'


def extract_string_fn(repo, sig, cname):
    path = os.path.join(repo, SRC)
    first, last, sigtext, body = rules.find_function(path, sig)
    arg = re.search(sig, sigtext).group(1)
    rw = rules.StringRewriter([arg])
    out, origin = [], []
    for k, line in enumerate(body.split('\n')):
        st = line.strip()
        m = re.match(r'^return\s+(\w+)\.str\(\)\s*;$', st)
        if m and m.group(1) in rw.streams:
            new = 'return %s;' % m.group(1)
        else:
            new = rw.rewrite_line(line)
        if new.strip():
            out.append(new)
            origin.append('%s:%d' % (SRC, first + k))
    ctext = 'vstr %s(vstr %s) {\n%s\n}\n' % (cname, arg, '\n'.join(out))
    rules.check_residue(ctext, rw.sv, cname)
    return {'c': ctext, 'lines': (first, last), 'origin': origin, 'fired': rw.fired}


# (regex on the stripped line) -> replacement template (python format with match groups) ; None = dropped (reported)
def walk_rules(arg):
    S = r'\s*'
    return [
        (r'^Data data;$', None, 'result value (payload)'),
        (r'^std::string trimmed = boost::trim_copy\(%s\);$' % arg, 'vstr trimmed = vstr_trim(&%s);' % arg, ''),
        (r'^if \(trimmed\.length\(\) == 0\)$', 'if (vstr_size(&trimmed) == 0)', ''),
        (r'^return data;$', 'return;', ''),
        (r'^if \(trimmed\.find_first_of\("\{\["\) != 0\)$', 'if (vstr_find_first_of(&trimmed, "{[", 0) != 0)', ''),
        (r'^jsmn_parser p;$', 'jsmn_parser p;', ''),
        (r'^jsmntok_t\* t = NULL;$', 'jsmntok_t* t = NULL;', ''),
        (r'^int rv;$', 'int rv;', ''),
        (r'^int frac = (\d+);$', 'int frac = <0>;', ''),
        (r'^do \{$', 'do {', ''),
        (r'^jsmn_init\(&p\);$', 'jsmn_init(&p);', ''),
        (r'^frac /= 2;$', 'frac /= 2;', ''),
        (r'^int nrTokens = trimmed\.size\(\) / frac;$', 'int nrTokens = vstr_size(&trimmed) / frac;', ''),
        (r'^if \(t != NULL\) \{$', 'if (t != NULL) {', ''),
        (r'^free\(t\);$', 'VERIF_FREE(t);', ''),
        (r'^\}$', '}', ''),
        (r'^\} else \{$', '} else {', ''),
        (r'^dataStack\.push_back\(dataStack\.back\(\)\);$', 'DATA_BACK(); DATA_PUSH();', 'payload: duplicate of the enclosing element'),
        (r'^t = \(jsmntok_t\*\)malloc\(\((\w+) \+ 1\) \* sizeof\(jsmntok_t\)\);$', 't = VERIF_MALLOC_TOKENS((<0> + 1));', ''),
        (r'^t = \(jsmntok_t\*\)malloc\((.*) \* sizeof\(jsmntok_t\)\);$', 't = VERIF_MALLOC_TOKENS((<0>));', ''),
        (r'^if \(t == NULL\) \{$', 'if (t == NULL) {', ''),
        (r'^ERROR_PLATFORM_THROW\((".*")\);$', 'VERIF_THROW();', ''),
        (r'^memset\(t, 0, (.*) \* sizeof\(jsmntok_t\)\);$', 'VERIF_ZERO_TOKENS(t, <0>);', ''),
        (r'^rv = jsmn_parse\(&p, trimmed\.c_str\(\), t, (\w+)\);$', 'rv = jsmn_parse(&p, trimmed.b, t, <0>);', ''),
        (r'^\} while \((.*)\);$', '} while (<0>);', ''),
        (r'^if \(rv != 0\) \{$', 'if (rv != 0) {', ''),
        (r'^switch \(rv\) \{$', 'switch (rv) {', ''),
        (r'^case (JSMN_\w+): \{$', 'case <0>: {', ''),
        (r'^case (JSMN_\w+):$', 'case <0>:', ''),
        (r'^default:$', 'default:', ''),
        (r'^break;$', 'break;', ''),
        (r'^if \(\(size_t\)t\[0\]\.end != trimmed\.length\(\)\)$', 'if ((size_t)T_AT(0).end != vstr_size(&trimmed))', ''),
        (r'^std::list<Data\*> dataStack;$', 'int dataDepth = 0;', ''),
        (r'^std::list<jsmntok_t> tokenStack;$', 'jsmntok_t tokenStack[VERIF_STACK]; int tokenDepth = 0;', ''),
        (r'^dataStack\.push_back\(&data\);$', 'DATA_PUSH();', ''),
        (r'^size_t currTok = 0;$', 'size_t currTok = 0;', ''),
        (r'^switch \(t\[currTok\]\.type\) \{$', 'switch (T_VALUE(currTok).type) {', ''),
        (r'^dataStack\.back\(\)->type = Data::VERBATIM;$', 'DATA_BACK();', 'payload: type'),
        # token text: a ghost flag per string variable records whether it went through jsonUnescape before it is used as a key / an atom
        (r'^std::string (\w+) = trimmed\.substr\((.*)\);$', 'vstr <0> = vstr_substr(&trimmed, <1>); int unesc_<0> = 0;', ''),
        (r'^(\w+) = jsonUnescape\(\1\);$', '<0> = json_unescape(<0>); unesc_<0> = 1;', ''),
        (r'^dataStack\.back\(\)->atom = (\w+);$', 'ATOM_USE(unesc_<0>); DATA_BACK();', 'payload: atom'),
        (r'^dataStack\.pop_back\(\);$', 'DATA_POP();', ''),
        (r'^currTok\+\+;$', 'currTok++;', ''),
        (r'^tokenStack\.push_back\(t\[currTok\]\);$', 'TOK_PUSH(T_AT(currTok));', ''),
        (r'^if \((.*)\)$', 'if (<0>)', 'cond'),
        (r'^while \((.*)\) \{$', 'while (<0>) {', 'cond'),
        (r'^if \((.*)\) \{$', 'if (<0>) {', 'cond'),
        (r'^tokenStack\.pop_back\(\);$', 'TOK_POP();', ''),
        (r'^std::string (\w+) = jsonUnescape\(trimmed\.substr\((.*)\)\);$', 'vstr <0> = json_unescape(vstr_substr(&trimmed, <1>)); int unesc_<0> = 1;', ''),
        (r'^dataStack\.push_back\(&\(dataStack\.back\(\)->compound\[(\w+)\]\)\);$', 'KEY_USE(unesc_<0>); DATA_BACK(); DATA_PUSH();', 'payload: compound[key]'),
        (r'^dataStack\.back\(\)->array\.push_back\(Data\(\)\);$', 'DATA_BACK();', 'payload: array element'),
        (r'^dataStack\.push_back\(&\(dataStack\.back\(\)->array\.back\(\)\)\);$', 'DATA_BACK(); DATA_PUSH();', 'payload: array.back()'),
        (r'^\} while \(true\);$', '} while (1);', ''),
    ]


def rewrite_cond(c):
    """conditions of if/while inside the walk: token and stack accesses"""
    c = re.sub(r'\bt\[(\w+)\]', r'T_AT(\1)', c)
    c = re.sub(r'\btokenStack\.empty\(\)', '(tokenDepth == 0)', c)
    c = re.sub(r'\btokenStack\.back\(\)', 'TOK_BACK()', c)
    c = re.sub(r'\btrimmed\.(length|size)\(\)', 'vstr_size(&trimmed)', c)
    return c


def extract_from_json(repo, cname):
    path = os.path.join(repo, SRC)
    first, last, sigtext, body = rules.find_function(path, SIG_FROM)
    arg = re.search(SIG_FROM, sigtext).group(1)
    rl = walk_rules(arg)
    out, origin, dropped, fired = [], [], [], {}
    for k, line in enumerate(body.split('\n')):
        st = ' '.join(line.split())
        if not st:
            continue
        done = False
        for rx, rep, note in rl:
            m = re.match(rx, st)
            if not m:
                continue
            fired[rx] = fired.get(rx, 0) + 1
            if rep is None:
                dropped.append({'line': first + k, 'text': st, 'what': note})
            else:
                groups = list(m.groups())
                if note == 'cond':
                    groups = [rewrite_cond(g) for g in groups]
                else:
                    groups = [re.sub(r'\bt\[(\w+)\]', r'T_AT(\1)', g) for g in groups]
                new = rep
                for gi, g in enumerate(groups):
                    new = new.replace('<%d>' % gi, g)
                out.append(new)
                origin.append('%s:%d' % (SRC, first + k))
                if note.startswith('payload'):
                    dropped.append({'line': first + k, 'text': st, 'what': note})
            done = True
            break
        if not done:
            raise rules.ExtractionError('%s:%d: line of Data::fromJSON not covered by any extraction rule: %s' % (SRC, first + k, st))
    ctext = 'void %s(vstr %s) {\n%s\n}\n' % (cname, arg, '\n'.join(out))
    chk = rules.strip_literals(ctext)
    for rx in (r'\bdataStack\b', r'\btokenStack\.', r'(?<![_A-Z(])\bt\[', r'\btrimmed\.(?!b\b)', r'\bData\b', r'->'):
        m = re.search(rx, chk)
        if m:
            raise rules.ExtractionError('fromJSON not fully rewritten, residue /%s/ near: %s' % (rx, chk[max(0, m.start() - 40):m.end() + 40].replace('\n', ' ')))
    rules.check_residue(ctext, [], cname)
    must = [r'^switch \(t\[currTok\]\.type\) \{$', r'^rv = jsmn_parse', r'^tokenStack\.push_back', r'^dataStack\.pop_back', r'^\} while \(true\);$']
    for rx in must:
        if not any(k.startswith(rx[:12]) or k == rx for k in fired):
            raise rules.ExtractionError('anchor rule never fired: ' + rx)
    return {'c': ctext, 'lines': (first, last), 'origin': origin, 'dropped': dropped, 'rules_fired': len(fired)}


SIG_TOJSON = r'\bstd::string\s+Data::toJSON\s*\(\s*const\s+Data\s*&\s*(\w+)\s*\)\s*'


def extract_tojson_slices(repo):
    """Two slices of Data::toJSON (the writer recurses over std::map / std::list and is otherwise out of reach):
       tojson_key  - the ONE stream statement that writes an object key (the statement mentioning compoundIter->first and os <<),
                     with compoundIter->first -> key, std::endl -> "\\n", jsonEscape(..) -> the extracted json_escape;
       tojson_atom - the branches that write an atom: from `else if (<d>.atom.size() > 0)` to the end of the if-chain, with the
                     XML-node branch (#ifndef NO_XERCESC) dropped, <d>.atom -> atom, <d>.type == Data::VERBATIM -> verbatim.
    Everything else of toJSON (iteration, indentation bookkeeping, recursion) is dropped."""
    path = os.path.join(repo, SRC)
    first, last, sigtext, body = rules.find_function(path, SIG_TOJSON)
    d = re.search(SIG_TOJSON, sigtext).group(1)
    # the XML-node branch (#ifndef NO_XERCESC ... #endif) is dropped
    body, ndrop = re.subn(r'^[ \t]*#\s*ifndef\s+NO_XERCESC\b.*?^[ \t]*#\s*endif[^\n]*$', '', body, flags=re.S | re.M)
    if '#' in rules.strip_literals(body):
        raise rules.ExtractionError('toJSON: preprocessor lines other than the NO_XERCESC block')
    # ---- key statement
    stmts = [m.group(0) for m in re.finditer(r'\bos\s*<<[^;]*;', body) if 'compoundIter->first' in m.group(0)]
    if len(stmts) != 1:
        raise rules.ExtractionError('toJSON: expected exactly one stream statement writing compoundIter->first, found %d' % len(stmts))
    st = re.sub(r'[\n\t]+', ' ', stmts[0]).strip()   # keep blanks inside string literals as they are
    st = st.replace('compoundIter->first', 'key').replace('std::endl', '"\\n"')
    st = re.sub(r'\bjsonEscape\s*\(', 'json_escape(', st)
    rw = rules.StringRewriter(['seperator', 'indent', 'keyPadding', 'key'], ['os'])
    rw.sv.add('os')
    key_c = rw.rewrite_line(st)
    key_fn = ('/* %s:%d-%d toJSON, the statement that writes an object key */\n'
              'vstr tojson_key(vstr seperator, vstr indent, vstr keyPadding, size_t longestKey, vstr key) {\n  vstr os = vstr_empty();\n  %s\n  return os;\n}\n' % (SRC, first, last, key_c))
    rules.check_residue(key_fn, rw.sv, 'tojson_key')
    if re.search(r'compoundIter|->|\bdata\b', rules.strip_literals(key_fn)):
        raise rules.ExtractionError('toJSON key statement not fully rewritten: ' + key_c)
    # ---- atom branches
    m = re.search(r'\}\s*else\s+if\s*\(\s*%s\.atom\.size\(\)\s*>\s*0\s*\)\s*\{' % d, body)
    if not m:
        raise rules.ExtractionError('toJSON: branch `else if (%s.atom.size() > 0)` not found' % d)
    m2 = re.search(r'\breturn\s+os\.str\(\)\s*;', body)
    if not m2 or m2.start() < m.end():
        raise rules.ExtractionError('toJSON: `return os.str();` after the atom branches not found')
    chain = 'if (0) {\n' + body[m.start():m2.start()]
    chain = chain.replace('%s.atom' % d, 'atom')
    chain = re.sub(r'%s\.type\s*==\s*Data::VERBATIM' % d, 'verbatim', chain)
    chain = re.sub(r'\bjsonEscape\s*\(', 'json_escape(', chain)
    if re.search(r'\b%s\b' % d, rules.strip_literals(chain)):
        raise rules.ExtractionError('toJSON atom branches use %s beyond .atom / .type == Data::VERBATIM: not a leaf any more' % d)
    rw2 = rules.StringRewriter(['atom'], ['os'])
    rw2.sv.add('os')
    lines = [rw2.rewrite_line(l) for l in chain.split('\n')]
    atom_fn = ('/* toJSON, the branches that write an atom (string / number / empty) */\n'
               'vstr tojson_atom(int verbatim, vstr atom) {\n  vstr os = vstr_empty();\n%s\n  return os;\n}\n' % '\n'.join(l for l in lines if l.strip()))
    rules.check_residue(atom_fn, rw2.sv, 'tojson_atom')
    return {'c': key_fn + '\n' + atom_fn, 'lines': (first, last)}


def write_all(repo, outdir):
    os.makedirs(outdir, exist_ok=True)
    esc = extract_string_fn(repo, SIG_ESC, 'json_escape')
    unesc = extract_string_fn(repo, SIG_UNESC, 'json_unescape')
    walk = extract_from_json(repo, 'from_json_walk')
    p1 = os.path.join(outdir, 'json_str_extracted.c')
    open(p1, 'w').write('/* GENERATED by engines/extract/json_extract.py from %s */\n/* jsonUnescape %d-%d */\n%s\n/* jsonEscape %d-%d */\n%s\n'
                        % (SRC, unesc['lines'][0], unesc['lines'][1], unesc['c'], esc['lines'][0], esc['lines'][1], esc['c']))
    p2 = os.path.join(outdir, 'json_walk_extracted.c')
    open(p2, 'w').write('/* GENERATED by engines/extract/json_extract.py from %s:%d-%d (Data::fromJSON) */\n%s\n' % (SRC, walk['lines'][0], walk['lines'][1], walk['c']))
    with open(os.path.join(outdir, 'json_origin.txt'), 'w') as f:
        for name, info in (('jsonUnescape', unesc), ('jsonEscape', esc), ('fromJSON', walk)):
            for o, l in zip(info['origin'], info['c'].split('\n')[1:-2]):
                f.write('%-36s | %s\n' % (o, l))
    tj = extract_tojson_slices(repo)
    open(p1, 'a').write('\n' + tj['c'])
    return p1, p2, {'escape': esc, 'unescape': unesc, 'walk': walk, 'tojson': tj}


if __name__ == '__main__':
    p1, p2, info = write_all(sys.argv[1] if len(sys.argv) > 1 else '/repo', '/tmp/jsx')
    print(open(p1).read())
    print(open(p2).read())
    print(info['walk']['dropped'])
