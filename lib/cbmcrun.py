"""Common CBMC contract pipeline: goto-cc -> goto-instrument (--dfcc) -> cbmc.

Every job is one harness entry ("h_<fn>") for one function under contract.  The
result classifies each CBMC property as discharged / failed / canary and never
turns a tool problem (timeout, OOM, parse error, instrumentation abort) into a
property failure: those come back as status 'error' and the drivers exit 2.
"""
import json
import os
import re
import resource
import shutil
import subprocess
import time

TOOL_VERSIONS = None


def tool_versions():
    global TOOL_VERSIONS
    if TOOL_VERSIONS is None:
        v = subprocess.run(['cbmc', '--version'], capture_output=True, text=True).stdout.strip()
        TOOL_VERSIONS = 'cbmc/goto-cc/goto-instrument ' + v
    return TOOL_VERSIONS


def _limits(mem_gb):
    def f():
        b = int(mem_gb * (1 << 30))
        resource.setrlimit(resource.RLIMIT_AS, (b, b))
        os.setsid()
    return f


def run(cmd, timeout, mem_gb=16, cwd=None, log=None, env=None):
    """Run a tool; returns (rc, stdout, stderr, seconds); rc = 'timeout' on timeout."""
    t0 = time.time()
    try:
        p = subprocess.Popen(cmd, stdout=subprocess.PIPE, stderr=subprocess.PIPE, cwd=cwd,
                             preexec_fn=_limits(mem_gb), text=True, env=env)
        try:
            out, err = p.communicate(timeout=timeout)
            rc = p.returncode
        except subprocess.TimeoutExpired:
            try:
                os.killpg(p.pid, 9)
            except Exception:
                p.kill()
            out, err = p.communicate()
            rc = 'timeout'
    except OSError as e:
        out, err, rc = '', str(e), 'oserror'
    dt = time.time() - t0
    if log:
        with open(log, 'a') as f:
            f.write('$ ' + ' '.join(cmd) + '\n# rc=%s %.1fs\n' % (rc, dt))
            if err:
                f.write(err[-20000:] + '\n')
    return rc, out, err, dt


CANARY = 'CANARY'

DEFAULT_CHECKS = ['--bounds-check', '--pointer-check', '--div-by-zero-check',
                  '--signed-overflow-check', '--conversion-check',
                  '--pointer-overflow-check', '--undefined-shift-check']


class Job(object):
    def __init__(self, name, sources, entry, workdir, enforce=None, replace=(), defines=None,
                 includes=(), loop_contracts_file=None, apply_loop_contracts=False,
                 pre_unwindset=(), cbmc_flags=(), checks=None, timeout=600, mem_gb=16,
                 dfcc=True, expect_canaries=None, meta=None, nondet_static=False,
                 extra_instrument=(), loop_anchors=None):
        self.name = name
        self.sources = list(sources)
        self.entry = entry
        self.workdir = workdir
        self.enforce = enforce
        self.replace = list(replace)
        self.defines = dict(defines or {})
        self.includes = list(includes)
        self.loop_contracts_file = loop_contracts_file
        self.apply_loop_contracts = apply_loop_contracts
        self.pre_unwindset = list(pre_unwindset)
        self.cbmc_flags = list(cbmc_flags)
        self.checks = DEFAULT_CHECKS if checks is None else list(checks)
        self.timeout = timeout
        self.mem_gb = mem_gb
        self.dfcc = dfcc
        self.expect_canaries = expect_canaries  # minimum number of canaries that must FAIL
        self.meta = meta or {}
        self.extra_instrument = list(extra_instrument)
        self.loop_anchors = loop_anchors or {}


def parse_cbmc_json(out):
    """Returns (properties, status, messages)."""
    try:
        data = json.loads(out)
    except ValueError:
        # truncated output (killed): try to salvage
        return None, None, []
    props, status, msgs = [], None, []
    for e in data:
        if not isinstance(e, dict):
            continue
        if 'result' in e:
            props = e['result']
        if 'cProverStatus' in e:
            status = e['cProverStatus']
        if 'messageText' in e:
            msgs.append((e.get('messageType', ''), e['messageText']))
    return props, status, msgs


def trace_inputs(trace):
    """Extract assignments from a CBMC json trace: list of (lhs, value-dict, function, line)."""
    res = []
    for st in trace or []:
        if st.get('stepType') == 'assignment' and not st.get('hidden', False):
            v = st.get('value', {})
            loc = st.get('sourceLocation', {})
            res.append({'lhs': st.get('lhs'), 'value': v.get('data', v.get('name')),
                        'binary': v.get('binary'), 'function': loc.get('function'),
                        'line': loc.get('line'), 'file': loc.get('file')})
    return res


def show_loops(binary, log=None):
    """{(function, ordinal): (file, line)} from goto-instrument --show-loops."""
    rc, out, err, dt = run(['goto-instrument', '--show-loops', binary], 120, 8, log=log)
    loops = {}
    cur = None
    for line in out.splitlines():
        m = re.match(r'Loop (\S+)\.(\d+):', line)
        if m:
            cur = (m.group(1), m.group(2))
            continue
        m = re.match(r'\s+file (\S+) line (\d+)', line)
        if m and cur:
            loops[cur] = (m.group(1), int(m.group(2)))
            cur = None
    return loops


def check_loop_anchors(binary, anchors, log=None):
    """anchors: {(function, ordinal): regex the loop's source line must match}.  Also demands
    that the function has exactly the anchored number of loops.  Returns '' or a diagnostic."""
    loops = show_loops(binary, log)
    fns = set(fn for fn, _ in anchors)
    for fn in fns:
        have = sorted(k[1] for k in loops if k[0] == fn)
        want = sorted(k[1] for k in anchors if k[0] == fn)
        if have != want:
            return 'function %s has loops %s, contracts exist for %s' % (fn, have, want)
    for (fn, lid), rx in anchors.items():
        f, ln = loops[(fn, lid)]
        try:
            text = open(f, errors='replace').read().splitlines()[ln - 1]
        except Exception as e:
            return 'cannot read %s:%d (%s)' % (f, ln, e)
        if not re.search(rx, text):
            return 'DRIFT loop %s.%s at %s:%d is %r, expected /%s/' % (fn, lid, f, ln, text.strip(), rx)
    return ''


def verify(job):
    """Run the pipeline for one job.  Returns a result dict."""
    wd = job.workdir
    os.makedirs(wd, exist_ok=True)
    log = os.path.join(wd, job.name + '.log')
    open(log, 'w').close()
    res = {'name': job.name, 'entry': job.entry, 'enforce': job.enforce, 'replace': job.replace,
           'status': 'ok', 'reason': '', 'obligations': 0, 'discharged': 0, 'failed': [],
           'canaries_fired': 0, 'canaries_total': 0, 'time': {}, 'meta': job.meta, 'log': log,
           'lib_obligations': 0, 'samples': [], 'classes': {}, 'tags': {}}
    a = os.path.join(wd, job.name + '.a.gb')
    b = os.path.join(wd, job.name + '.b.gb')
    c = os.path.join(wd, job.name + '.c.gb')
    if getattr(job, 'prebuilt', False):
        a = job.sources[0]
    else:
        cmd = ['goto-cc', '--function', job.entry, '-o', a]
        for k, v in job.defines.items():
            cmd.append('-D%s=%s' % (k, v) if v is not None else '-D%s' % k)
        for i in job.includes:
            cmd += ['-I', i]
        cmd += job.sources
        rc, out, err, dt = run(cmd, 300, job.mem_gb, log=log)
        res['time']['goto-cc'] = round(dt, 2)
        if rc != 0:
            res.update(status='error', reason='goto-cc failed rc=%s: %s' % (rc, (err or out)[-1500:]))
            return res
    cur = a
    if job.loop_anchors:
        bad = check_loop_anchors(a, job.loop_anchors, log)
        if bad.startswith('DRIFT'):
            # same number of loops, a loop header reads differently: the contracts are still applied by ordinal, but a
            # failing obligation is then only believed if the engine reproduces it natively on the real code
            res['anchor_drift'] = bad
        elif bad:
            res.update(status='error', reason='loop map out of date: ' + bad)
            return res
    if job.pre_unwindset:
        cmd = ['goto-instrument', '--unwindset', ','.join(job.pre_unwindset),
               '--unwinding-assertions', cur, b]
        rc, out, err, dt = run(cmd, 600, job.mem_gb, log=log)
        res['time']['unwind'] = round(dt, 2)
        if rc != 0:
            res.update(status='error', reason='goto-instrument --unwindset failed rc=%s: %s' % (rc, (err + out)[-1500:]))
            return res
        cur = b
    if job.dfcc:
        cmd = ['goto-instrument'] + job.extra_instrument
        if job.loop_contracts_file:
            cmd += ['--loop-contracts-file', job.loop_contracts_file]
        cmd += ['--dfcc', job.entry]
        if job.enforce:
            cmd += ['--enforce-contract', job.enforce]
        for r in job.replace:
            cmd += ['--replace-call-with-contract', r]
        if job.apply_loop_contracts:
            cmd += ['--apply-loop-contracts']
        cmd += [cur, c]
        rc, out, err, dt = run(cmd, getattr(job, 'instrument_timeout', 900), job.mem_gb, log=log)
        res['time']['instrument'] = round(dt, 2)
        if rc != 0 and (rc == 'timeout' or 'Out of memory' in (err + out) or 'bad_alloc' in (err + out)):
            res.update(status='error', reason='RESOURCE: goto-instrument --dfcc exceeded its budget (rc=%s, %.0fs, %s GB): %s' % (rc, dt, job.mem_gb, (err + out)[-300:]))
            return res
        if rc != 0:
            res.update(status='error', reason='goto-instrument --dfcc failed rc=%s: %s' % (rc, (err + out)[-1500:]))
            return res
        cur = c
    cmd = ['cbmc', cur, '--object-bits', '12'] + job.checks + job.cbmc_flags + ['--json-ui']
    rc, out, err, dt = run(cmd, job.timeout, job.mem_gb, log=log)
    res['time']['cbmc'] = round(dt, 2)
    res['checker_cmd'] = ' '.join(cmd)
    if rc == 'timeout':
        res.update(status='error', reason='cbmc timeout after %ds' % job.timeout)
        return res
    props, status, msgs = parse_cbmc_json(out)
    if props is None or rc not in (0, 10):
        res.update(status='error', reason='cbmc rc=%s, unparsable or aborted: %s' % (rc, (err or out)[-1500:]))
        return res
    for typ, m in msgs:
        if 'ignoring' in m and ('forall' in m or 'exists' in m or 'quantif' in m):
            res.update(status='error', reason='solver ignored a quantifier: ' + m)
            return res
        if typ == 'ERROR':
            res.update(status='error', reason='cbmc error: ' + m)
            return res
    m = re.search(r'(\d+) variables, (\d+) clauses', ' '.join(x[1] for x in msgs))
    solver_t = [x[1] for x in msgs if 'Runtime decision procedure' in x[1] or 'Runtime Solver' in x[1]]
    res['solver_msgs'] = solver_t[-3:]
    failed_ids = []
    unwind_fail = False
    for p in props:
        pid, st, desc = p.get('property', ''), p.get('status', ''), p.get('description', '')
        if pid.startswith('__CPROVER_') or pid.startswith('malloc.') or pid.startswith('free.'):
            res['lib_obligations'] += 1
            if st != 'SUCCESS':
                res['failed'].append({'property': pid, 'description': desc, 'library': True,
                                      'location': p.get('sourceLocation', {})})
                failed_ids.append(pid)
            continue
        if desc.startswith(CANARY):
            res['canaries_total'] += 1
            if st == 'FAILURE':
                res['canaries_fired'] += 1
            else:
                res.setdefault('canaries_dead', []).append(desc)
            continue
        res['obligations'] += 1
        cls = pid.split('.')[-2] if pid.count('.') >= 2 else 'other'
        res['classes'][cls] = res['classes'].get(cls, 0) + 1
        mt = re.match(r'(C\d+)\.', desc)
        tag = mt.group(1) if mt else ''
        tg = res['tags'].setdefault(tag, [0, 0])
        tg[0] += 1
        if st == 'SUCCESS':
            tg[1] += 1
        if st == 'SUCCESS':
            res['discharged'] += 1
            if len(res['samples']) < 4 and ('postcondition' in pid or 'assertion' in pid or 'loop_' in pid):
                res['samples'].append('%s: %s' % (pid, desc))
        else:
            if 'unwinding assertion' in desc or pid.endswith('.unwind') or '.unwind.' in pid:
                unwind_fail = True
            res['failed'].append({'property': pid, 'description': desc, 'tag': tag,
                                  'location': p.get('sourceLocation', {}), 'status': st})
            failed_ids.append(pid)
    res['failed'].sort(key=lambda f: 1 if f.get('library') else 0)
    if unwind_fail:
        res.update(status='error', reason='unwinding assertion failed: bound too small (tool setup problem, not a violation)')
        return res
    if res['obligations'] == 0:
        res.update(status='error', reason='zero obligations generated (vacuous)')
        return res
    if res['canaries_total'] == 0 and job.expect_canaries != 0:
        res.update(status='error', reason='no canary in harness (vacuity unguarded)')
        return res
    if res.get('canaries_dead') and not res['failed']:
        res.update(status='error', reason='canary not reachable (contradictory preconditions / dead harness): %s' % res['canaries_dead'][:3])
        return res
    # traces for real failures: second run restricted to those properties
    if res['failed']:
        ids = [f['property'] for f in res['failed']][:6]
        cmd2 = ['cbmc', cur, '--object-bits', '12'] + job.checks + job.cbmc_flags + ['--json-ui', '--trace']
        for i in ids:
            cmd2 += ['--property', i]
        rc2, out2, err2, dt2 = run(cmd2, job.timeout, job.mem_gb, log=log)
        res['time']['cbmc-trace'] = round(dt2, 2)
        p2, _, _ = parse_cbmc_json(out2) if rc2 != 'timeout' else (None, None, None)
        for p in p2 or []:
            if p.get('status') == 'FAILURE' and 'trace' in p:
                for f in res['failed']:
                    if f['property'] == p.get('property'):
                        f['trace'] = trace_inputs(p['trace'])
    if not job.meta.get('keep_binaries') and not os.environ.get('VERIF_KEEP'):
        for f in ((b, c) if getattr(job, 'prebuilt', False) else (a, b, c)):
            if os.path.exists(f):
                os.remove(f)
    return res
