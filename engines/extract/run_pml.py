"""Engine pmlarms (C17): operator arms of PromelaDataModel::evaluateExpr, extracted (route R3) and
verified loop-free over the full 32-bit operand domain: a complete proof per arm."""
import json
import os
import re
import subprocess
import sys

HERE = os.path.dirname(os.path.abspath(__file__))
sys.path.insert(0, os.path.join(HERE, '..', '..', 'lib'))
sys.path.insert(0, HERE)
from concurrent.futures import ThreadPoolExecutor
import cbmcrun
import common
import rules
import pml_extract

SYM = {'PML_PLUS': '+', 'PML_MINUS': '-', 'PML_TIMES': '*', 'PML_DIVIDE': '/', 'PML_MODULO': '%', 'PML_LSHIFT': '<<',
       'PML_RSHIFT': '>>', 'PML_LT': '<', 'PML_LE': '<=', 'PML_GT': '>', 'PML_GE': '>=', 'PML_EQ': '==', 'PML_NE': '!=',
       'PML_AND': '&&', 'PML_OR': '||', 'PML_NEG': '!'}

HARNESS_HEAD = '''/* GENERATED harness: one entry per (operator token, arity the grammar produces it with). */
#include PML_EXTRACTED
#include "pml_spec.h"
int nondet_int(void);
int wit_v1, wit_v2, wit_k1, wit_k2; /* witness copies for the trace */
'''

HARNESS_ARM = '''
void h_arm_%(tok)s_%(n)d(void) {
  int v1 = nondet_int(), v2 = nondet_int();
  int k1 = nondet_int(), k2 = nondet_int(); /* kinds of the operand nodes: any expression */
  wit_v1 = v1; wit_v2 = v2; wit_k1 = k1; wit_k2 = k2;
  verif_thrown = 0; verif_fell = 0;
  int r = arm_%(tok)s(%(n)d, %(tok)s, v1, v2, k1, k2);
  __CPROVER_assert(0, "CANARY returns");
  int fault = spec_fault(%(tok)s, %(n)d, v1, v2);
  __CPROVER_assert(!verif_fell, "O_value: the arm yields a value (does not fall out of the switch)");
  __CPROVER_assert(verif_thrown == fault, "O_fault: an execution error is raised exactly when the operation faults (division/modulo by zero, INT_MIN/-1) - never evaluated, never silently skipped");
  if (!fault && !verif_thrown && !verif_fell && spec_defined(%(tok)s, %(n)d, v1, v2)) {
    __CPROVER_assert(0, "CANARY value compared");
    __CPROVER_assert(r == spec_value(%(tok)s, %(n)d, v1, v2), "O_value: result equals the value C int arithmetic defines for %(sym)s");
  }
}
'''


def gen_harness(ext, path):
    parts = [HARNESS_HEAD]
    entries = []
    have = set(a['token'] for a in ext['arms'])
    for a in ext['arms']:
        for n in a['grammar_arities'] or [2]:
            parts.append(HARNESS_ARM % {'tok': a['token'], 'n': n, 'sym': SYM.get(a['token'], '?')})
            entries.append(('h_arm_%s_%d' % (a['token'], n), a['token'], n))
    parts.append('\nvoid h_dataToBool(void) {\n  int v = nondet_int();\n  wit_v1 = v; wit_v2 = 0;\n  bool b = pml_dataToBool(v);\n'
                 '  __CPROVER_assert(0, "CANARY returns");\n'
                 '  __CPROVER_assert(b == (v != 0), "O_value: dataToBool of an integer-valued operand is true exactly for non-zero values (C truth value)");\n}\n')
    for g in ext.get('index_guards', []):
        parts.append('\nvoid h_index_%(f)s(void) {\n  int index = nondet_int(), size = nondet_int();\n  wit_v1 = index; wit_v2 = size;\n  verif_thrown = 0; verif_used = 0;\n'
                     '  idx_%(f)s(index, size);\n  __CPROVER_assert(0, "CANARY returns");\n'
                     '  __CPROVER_assert(verif_thrown == !(index >= 0 && index < size), "O_index: an execution error is raised exactly for an index outside the declared array (negative or >= size)");\n'
                     '  __CPROVER_assert(verif_thrown || verif_used, "O_index: an index inside the array reaches the element access");\n}\n' % {'f': g['function']})
        entries.append(('h_index_%s' % g['function'], 'INDEX_' + g['function'], 2))
    if ext.get('array_len_guard'):
        parts.append('\nunsigned long nondet_ulong_al(void);\nunsigned long wit_size, wit_len;\nvoid h_arrlen_setVariable(void) {\n  size_t size = nondet_ulong_al(), len = nondet_ulong_al();\n  wit_size = size; wit_len = len;\n'
                     '  verif_thrown = 0; verif_used = 0;\n  arrlen_setVariable(size, len);\n  __CPROVER_assert(0, "CANARY returns");\n'
                     '  __CPROVER_assert(verif_thrown == (len > size), "O_index: assigning a whole array to a declared array raises an execution error exactly when it has more elements than declared");\n'
                     '  __CPROVER_assert(verif_thrown || verif_used, "O_index: an array that fits reaches the store");\n}\n')
        entries.append(('h_arrlen_setVariable', 'ARRLEN', 2))
    parts.append('\nunsigned long nondet_ulong(void);\nunsigned long wit_n, wit_idx;\nvoid h_data_subscript(void) {\n  size_t index = nondet_ulong();\n  verif_n = nondet_ulong();\n  verif_deref = 0;\n'
                 '  wit_n = verif_n; wit_idx = index;\n  data_subscript(index);\n  __CPROVER_assert(0, "CANARY returns");\n'
                 '  __CPROVER_assert(verif_deref, "O_elem: Data::operator[](size_t) returns an element");\n}\n')
    parts.append('\nvoid h_decl_array(void) {\n  int size = nondet_int();\n  wit_v1 = size; wit_v2 = 0;\n  verif_n = 0;\n  decl_array(size);\n  __CPROVER_assert(0, "CANARY returns");\n'
                 '  __CPROVER_assert(verif_declared == size, "O_decl: the declared size is recorded");\n}\n')
    parts.append('\nunsigned long nondet_ulong_in(void);\nvoid h_init_slice(void) {\n  size_t atom_len = nondet_ulong_in();\n  int interpreted = nondet_int(), other = nondet_int(), json_empty = nondet_int();\n'
                 '  int empty = (atom_len == 0 && !other);\n  wit_v1 = empty; wit_v2 = 0;\n  verif_storev = 0;\n  init_slice(atom_len, interpreted, other, json_empty);\n  __CPROVER_assert(0, "CANARY returns");\n'
                 '  __CPROVER_assert(!empty || verif_storev == 0, "O_default: a <data> element without a value leaves the declared variable at the default of its declaration (0) - it is not assigned");\n'
                 '  __CPROVER_assert(empty || verif_storev >= 1, "O_default: a <data> element with a value assigns it to the declared variable");\n}\n')
    entries.append(('h_init_slice', 'INIT', 1))
    parts.append('\nvoid h_arms_present(void) {\n  __CPROVER_assert(0, "CANARY returns");\n')
    for t in pml_extract.OPS:
        parts.append('  __CPROVER_assert(%d, "O_present: evaluateExpr has an arm for operator token %s (\'%s\') - otherwise a well-typed expression is rejected as not implemented");\n'
                     % (1 if t in have else 0, t, SYM[t]))
    parts.append('}\n')
    open(path, 'w').write(''.join(parts))
    return entries


def build_native():
    p = subprocess.run([os.path.join(common.VERIF, 'lib/ensure_build.sh'), 'test-state-pass'], capture_output=True, text=True)
    if p.returncode != 0:
        return None, (p.stdout + p.stderr)[-1500:]
    return os.path.join(common.BUILD, 'bin', 'test-state-pass'), ''


DOC = '''<?xml version="1.0" encoding="UTF-8"?>
<scxml xmlns="http://www.w3.org/2005/07/scxml" initial="s0" datamodel="promela" version="1.0">
  <datamodel>
    <data id="a" type="int" expr="0"/>
    <data id="b" type="int" expr="0"/>
    <data id="r" type="int" expr="0"/>
  </datamodel>
  <state id="s0">
    <onentry>
      %(setup)s
      <assign location="r" expr="%(expr)s"/>
      <raise event="done"/>
    </onentry>
    <transition event="error.execution" target="%(on_error)s"/>
    <transition event="done" cond="%(cond)s" target="%(on_value)s"/>
    <transition event="*" target="fail"/>
  </state>
  <final id="pass"/>
  <final id="fail"/>
</scxml>
'''


def esc(s):
    return s.replace('&', '&amp;').replace('<', '&lt;').replace('>', '&gt;').replace('"', '&quot;')


def c_spec(tok, n, a, b):
    """expected outcome computed by the spec header compiled natively (no second implementation in python)"""
    src = os.path.join(common.WORK, 'pml', 'spec_eval.c')
    exe = os.path.join(common.WORK, 'pml', 'spec_eval')
    os.makedirs(os.path.dirname(src), exist_ok=True)
    enum = ', '.join('%s = %d' % (t, 300 + i) for i, t in enumerate(pml_extract.OPS))
    open(src, 'w').write('#include <stdio.h>\n#include <stdlib.h>\nenum { %s };\n#include "pml_spec.h"\n'
                         'int main(int c, char **v) { int t = atoi(v[1]), n = atoi(v[2]), a = atoi(v[3]), b = atoi(v[4]);\n'
                         ' if (spec_fault(t, n, a, b)) { printf("fault\\n"); return 0; }\n'
                         ' if (!spec_defined(t, n, a, b)) { printf("undefined\\n"); return 0; }\n'
                         ' printf("%%d\\n", spec_value(t, n, a, b)); return 0; }\n' % enum)
    subprocess.run(['cc', '-fwrapv', '-I', HERE, src, '-o', exe], check=True)
    t = 300 + pml_extract.OPS.index(tok)
    return subprocess.run([exe, str(t), str(n), str(a), str(b)], capture_output=True, text=True).stdout.strip()


def native_replay(tok, n, a, b, wd):
    """Runs the REAL interpreter (test-state-pass built from /repo's working tree) on a document that evaluates
    the operator on a,b in the promela datamodel. returns (reproduced, text)"""
    exe, err = build_native()
    if not exe:
        return False, 'cannot build test-state-pass: ' + err
    sym = SYM[tok]
    expected = c_spec(tok, n, a, b)

    def lit(x, name):
        # negative literals cannot be written (unary minus is itself under test): build them by subtraction
        if x >= 0:
            return '<assign location="%s" expr="%d"/>' % (name, x), None
        if x == -2147483648:
            return '<assign location="%s" expr="0 - 2147483647"/><assign location="%s" expr="%s - 1"/>' % (name, name, name), None
        return '<assign location="%s" expr="0 - %d"/>' % (name, -x), None
    setup = lit(a, 'a')[0] + '\n      ' + lit(b, 'b')[0]
    expr = ('%s a' % sym) if n == 1 else ('a %s b' % sym)
    if expected == 'fault':
        on_error, on_value, cond = 'pass', 'fail', 'true'
    elif expected == 'undefined':
        return False, 'spec leaves the value undefined for these operands'
    else:
        ev = int(expected)
        on_error, on_value = 'fail', 'pass'
        if ev >= 0:
            cond = 'r == %d' % ev
        elif ev == -2147483648:
            cond = 'r + 2147483647 + 1 == 0'
        else:
            cond = 'r + %d == 0' % (-ev)
    doc = DOC % {'setup': setup, 'expr': esc(expr), 'on_error': on_error, 'on_value': on_value, 'cond': esc(cond)}
    os.makedirs(wd, exist_ok=True)
    path = os.path.join(wd, 'replay_%s_%d.scxml' % (tok, n))
    open(path, 'w').write(doc)
    try:
        p = subprocess.run([exe, path], capture_output=True, text=True, timeout=120, errors='replace')
        rc = p.returncode
        tail = (p.stdout + p.stderr).strip().splitlines()[-4:]
    except subprocess.TimeoutExpired:
        rc, tail = 'timeout', []
    text = 'document %s: expr "%s" with a=%d b=%d, spec expects %s; test-state-pass exit=%s %s' % (
        path, expr, a, b, expected, rc, ' / '.join(tail)[-300:])
    return (rc != 0), text


DOC_AL = '''<?xml version="1.0" encoding="UTF-8"?>
<scxml xmlns="http://www.w3.org/2005/07/scxml" initial="s0" datamodel="promela" version="1.0">
  <datamodel>
    <data id="arr" type="int[%(size)d]">%(content)s</data>
  </datamodel>
  <state id="s0">
    <onentry><raise event="done"/></onentry>
    <transition event="error.execution" target="%(on_error)s"/>
    <transition event="done" cond="%(cond)s" target="%(on_value)s"/>
    <transition event="*" target="fail"/>
  </state>
  <final id="pass"/>
  <final id="fail"/>
</scxml>
'''


DOC_INIT = '''<?xml version="1.0" encoding="UTF-8"?>
<scxml xmlns="http://www.w3.org/2005/07/scxml" initial="s0" datamodel="promela" version="1.0">
  <datamodel>
    <data id="x" type="int"/>
    <data id="y" type="int" expr="7"/>
    <data id="arr" type="int[2]"/>
  </datamodel>
  <state id="s0">
    <onentry><raise event="done"/></onentry>
    <transition event="error.execution" target="fail"/>
    <transition event="done" cond="x + 1 == 1 &amp;&amp; y == 7 &amp;&amp; arr[1] + 1 == 1" target="pass"/>
    <transition event="*" target="fail"/>
  </state>
  <final id="pass"/>
  <final id="fail"/>
</scxml>
'''


def native_replay_init(wd):
    """value-less <data> elements must read 0, one with expr its value; run by the real test-state-pass. returns (reproduced, text)"""
    exe, err = build_native()
    if not exe:
        return False, 'cannot build test-state-pass: ' + err
    os.makedirs(wd, exist_ok=True)
    path = os.path.join(wd, 'replay_init.scxml')
    open(path, 'w').write(DOC_INIT)
    try:
        p = subprocess.run([exe, path], capture_output=True, text=True, timeout=120, errors='replace')
        rc = p.returncode
        tail = (p.stdout + p.stderr).strip().splitlines()[-4:]
    except subprocess.TimeoutExpired:
        rc, tail = 'timeout', []
    return (rc != 0), 'document %s: <data id="x" type="int"/>, <data id="y" type="int" expr="7"/>, <data id="arr" type="int[2]"/>, expects x + 1 == 1 && y == 7 && arr[1] + 1 == 1; test-state-pass exit=%s %s' % (path, rc, ' / '.join(tail)[-300:])


def native_replay_decl(size, wd):
    """<data id="arr" type="int[size]"/> then every element must read 0, run by the real test-state-pass. returns (reproduced, text)"""
    exe, err = build_native()
    if not exe:
        return False, 'cannot build test-state-pass: ' + err
    cond = ' && '.join('arr[%d] == 0' % i for i in range(size))
    os.makedirs(wd, exist_ok=True)
    path = os.path.join(wd, 'replay_decl.scxml')
    open(path, 'w').write(DOC_AL.replace('>%(content)s</data>', '/>') % {'size': size, 'on_error': 'fail', 'on_value': 'pass', 'cond': esc(cond)})
    try:
        p = subprocess.run([exe, path], capture_output=True, text=True, timeout=120, errors='replace')
        rc = p.returncode
        tail = (p.stdout + p.stderr).strip().splitlines()[-4:]
    except subprocess.TimeoutExpired:
        rc, tail = 'timeout', []
    return (rc != 0), 'document %s: int arr[%d] declared, expects %s; test-state-pass exit=%s %s' % (path, size, cond, rc, ' / '.join(tail)[-300:])


def native_replay_arrlen(size, length, wd):
    """<data id="arr" type="int[size]">[1,..,length]</data> run by the real test-state-pass: an error exactly for length > size. returns (reproduced, text)"""
    exe, err = build_native()
    if not exe:
        return False, 'cannot build test-state-pass: ' + err
    length = max(1, length)
    content = '[' + ','.join(str(i + 1) for i in range(length)) + ']'
    if length > size:
        on_error, on_value, cond, expected = 'pass', 'fail', 'true', 'an execution error'
    else:
        on_error, on_value, cond, expected = 'fail', 'pass', 'arr[%d] == %d' % (length - 1, length), 'no error and arr[%d] == %d' % (length - 1, length)
    os.makedirs(wd, exist_ok=True)
    path = os.path.join(wd, 'replay_arrlen.scxml')
    open(path, 'w').write(DOC_AL % {'size': size, 'content': content, 'on_error': on_error, 'on_value': on_value, 'cond': esc(cond)})
    try:
        p = subprocess.run([exe, path], capture_output=True, text=True, timeout=120, errors='replace')
        rc = p.returncode
        tail = (p.stdout + p.stderr).strip().splitlines()[-4:]
    except subprocess.TimeoutExpired:
        rc, tail = 'timeout', []
    return (rc != 0), 'document %s: int[%d] initialised with %d elements, expects %s; test-state-pass exit=%s %s' % (path, size, length, expected, rc, ' / '.join(tail)[-300:])


DOC_IDX = '''<?xml version="1.0" encoding="UTF-8"?>
<scxml xmlns="http://www.w3.org/2005/07/scxml" initial="s0" datamodel="promela" version="1.0">
  <datamodel>
    <data id="arr" type="int[%(size)d]"/>
    <data id="i" type="int" expr="0"/>
  </datamodel>
  <state id="s0">
    <onentry>
      %(setup)s
      %(access)s
      <raise event="done"/>
    </onentry>
    <transition event="error.execution" target="%(on_error)s"/>
    <transition event="done" %(cond)s target="%(on_value)s"/>
    <transition event="*" target="fail"/>
  </state>
  <final id="pass"/>
  <final id="fail"/>
</scxml>
'''


def native_replay_index(fn, index, size, wd, uninitialised=False):
    """array element access arr[i] (read: getVariable, write: setVariable) in the REAL promela datamodel with the witness
    index; the declared size is clamped to 1..8 (only whether the index is inside matters).  Expected: error.execution
    exactly for an index outside the array.  The run is memory- and time-limited: an unbounded allocation or a hang counts
    as reproduced."""
    exe, err = build_native()
    if not exe:
        return False, 'cannot build test-state-pass: ' + err
    sz = min(max(size, 1), 8)
    inside = 0 <= index < size
    if inside:
        index = min(index, sz - 1)
    elif index >= 0:
        index = sz + min(index - size, 3) if index >= size else index
    if index >= 0:
        setup = '<assign location="i" expr="%d"/>' % index
    elif index == -2147483648:
        setup = '<assign location="i" expr="0 - 2147483647"/><assign location="i" expr="i - 1"/>'
    else:
        setup = '<assign location="i" expr="0 - %d"/>' % (-index)
    if fn == 'getVariable':
        access, cond = '<assign location="i" expr="arr[i]"/>', ''
    else:
        access, cond = '<assign location="arr[i]" expr="5"/>', ''
    doc = (DOC_IDX if uninitialised else DOC_IDX.replace('<data id="arr" type="int[%(size)d]"/>', '<data id="arr" type="int[%(size)d]">[0,0,0,0,0,0,0,0]</data>')) % {'size': sz, 'setup': setup, 'access': access, 'cond': cond,
                     'on_error': 'fail' if inside else 'pass', 'on_value': 'pass' if inside else 'fail'}
    os.makedirs(wd, exist_ok=True)
    path = os.path.join(wd, 'replay_index_%s.scxml' % fn)
    open(path, 'w').write(doc)
    try:
        p = subprocess.run(['bash', '-c', 'ulimit -v 3000000; exec "$0" "$1"', exe, path], capture_output=True, text=True, timeout=120, errors='replace')
        rc = p.returncode
        tail = (p.stdout + p.stderr).strip().splitlines()[-3:]
    except subprocess.TimeoutExpired:
        rc, tail = 'timeout', []
    text = 'document %s: %s of arr[%d] with int arr[%d]; an execution error is %sexpected; test-state-pass (3 GB address-space limit) exit=%s %s' % (
        path, 'read' if fn == 'getVariable' else 'write', index, sz, '' if not inside else 'not ', rc, ' / '.join(tail)[-300:])
    return (rc != 0), text


DOC_ELEM = '''<?xml version="1.0" encoding="UTF-8"?>
<scxml xmlns="http://www.w3.org/2005/07/scxml" initial="s0" datamodel="promela" version="1.0">
  <datamodel>
    <data id="arr" type="int[%(size)d]">%(init)s</data>
  </datamodel>
  <state id="s0">
    <onentry>
      <assign location="arr[%(index)d]" expr="77"/>
      <raise event="done"/>
    </onentry>
    <transition event="error.execution" target="fail"/>
    <transition event="done" cond="%(cond)s" target="pass"/>
    <transition event="*" target="fail"/>
  </state>
  <final id="pass"/>
  <final id="fail"/>
</scxml>
'''


def native_replay_elem(index, wd):
    """write arr[index] of an array whose value list has exactly `index` elements (declared size index+1, initialised with
    index values), then read back: arr[index] == 77 and the element before it unchanged"""
    exe, err = build_native()
    if not exe:
        return False, 'cannot build test-state-pass: ' + err
    index = min(max(index, 0), 6)
    init = '[' + ','.join(str(k + 1) for k in range(index)) + ']' if index > 0 else ''
    cond = 'arr[%d] == 77' % index + (' &amp;&amp; arr[%d] == %d' % (index - 1, index) if index > 0 else '')
    path = os.path.join(wd, 'replay_elem.scxml')
    os.makedirs(wd, exist_ok=True)
    open(path, 'w').write(DOC_ELEM % {'size': index + 1, 'init': init, 'index': index, 'cond': cond})
    try:
        p = subprocess.run(['bash', '-c', 'ulimit -v 3000000; exec "$0" "$1"', exe, path], capture_output=True, text=True, timeout=120, errors='replace')
        rc, tail = p.returncode, (p.stdout + p.stderr).strip().splitlines()[-2:]
    except subprocess.TimeoutExpired:
        rc, tail = 'timeout', []
    return (rc != 0), 'document %s: int arr[%d] holding %d values, arr[%d] = 77, then %s expected; test-state-pass exit=%s %s' % (path, index + 1, index, index, cond.replace('&amp;', '&'), rc, ' / '.join(tail)[-200:])


def witness(trace):
    w = {}
    for st in trace or []:
        if st.get('lhs') in ('wit_v1', 'wit_v2') and st.get('binary'):
            v = int(st['binary'], 2)
            if v >= 1 << 31:
                v -= 1 << 32
            w[st['lhs']] = v
    return w.get('wit_v1'), w.get('wit_v2')


def unsequenced_fact():
    """supporting static fact (clang, NOT an obligation): arms in which two *opIter++ are unsequenced"""
    src = os.path.join(common.REPO, pml_extract.SRC)
    cfg = None
    for c in (common.BUILD, os.path.join(common.REPO, '_build')):
        if os.path.exists(os.path.join(c, 'uscxml', 'config.h')):
            cfg = c
            break
    cmd = ['clang++', '-std=c++11', '-fsyntax-only', '-Wunsequenced', '-w', '-Wunsequenced', '-I', os.path.join(common.REPO, 'src'),
           '-I', os.path.join(common.REPO, 'contrib/src')]
    if cfg:
        cmd += ['-I', cfg]
    cmd.append(src)
    try:
        p = subprocess.run(cmd, capture_output=True, text=True, timeout=300)
    except Exception as e:
        return {'status': 'not run: %s' % e}
    lines = sorted(set(int(m.group(1)) for m in re.finditer(r'PromelaDataModel\.cpp:(\d+):\d+: warning: multiple unsequenced modifications', p.stderr)))
    return {'status': 'ok' if p.returncode == 0 or lines else 'clang failed: ' + p.stderr[-300:], 'lines_with_unsequenced_opIter_increments': lines}


def run(tier):
    part = common.Part('pmlarms')
    wd = os.path.join(common.WORK, 'pml')
    os.makedirs(wd, exist_ok=True)
    part.trusted += [cbmcrun.tool_versions(), 'R3 extraction rules (engines/extract/pml_extract.py)',
                     'spec pml_spec.h transcribed from the Promela operator table (C int semantics)',
                     'Data(int)/dataToInt round trip (toStr / strTo<int>) that carries operand values between arms']
    part.assumptions += [
        'pmlarms: operands are integer-valued (what dataToInt(evaluateExpr(operand)) returned); the string-comparison branch of PML_EQ is dropped',
        'pmlarms: the textually first *opIter++ of an arm yields the LEFT operand. For arms that fetch both operands in ONE expression (listed under arms_whose_operand_order_is_left_to_the_compiler) C++ leaves the order of the two overloaded operator++ calls unspecified; gcc evaluates them left to right in this build. Detected syntactically by the extractor, not proved',
        'pmlarms: machine arithmetic - two\'s-complement wrap-around of + - * and unary minus is taken as defined; shift counts outside 0..31 are left unspecified',
        'pmlarms: NOT covered - precedence/associativity (bison grammar), variable storage (getVariable/setVariable over Data maps) except the integer guards on an array index, dataToInt string parsing, array/struct read-back',
        'pmlarms (O_index): the declared size is what strTo<int>(..["size"].atom) returns (any int); the element access itself (Data::operator[]) is not under contract - only that it is reached with 0 <= index < size',
    ]
    try:
        ext = pml_extract.extract(common.REPO)
    except rules.ExtractionError as e:
        part.errors.append('extraction broken: %s' % e)
        return part
    cpath = os.path.join(wd, 'pml_extracted.c')
    open(cpath, 'w').write(ext['c'])
    hpath = os.path.join(wd, 'harness_pml.c')
    entries = gen_harness(ext, hpath)
    part.functions.append({'function': 'PromelaDataModel::dataToBool (integer-valued operands)', 'file': '%s:%d-%d' % ((pml_extract.SRC,) + tuple(ext['dataToBool_lines'])),
                           'route': 'R3 extract -> pml_dataToBool in work/pml/pml_extracted.c', 'dropped': 'tests on the string representation (empty atom, VERBATIM, "true"/"false") resolved by the integer-operand assumption'})
    for a in ext['arms']:
        part.functions.append({'function': 'PromelaDataModel::evaluateExpr arm %s' % a['token'], 'file': '%s:%d' % (pml_extract.SRC, a['line']),
                               'route': 'R3 extract -> arm_%s in work/pml/pml_extracted.c' % a['token'],
                               'grammar_arities': a['grammar_arities'], 'dropped': a['dropped']})
    for g in ext.get('index_guards', []):
        part.functions.append({'function': 'PromelaDataModel::%s, case PML_VAR_ARRAY (guards on the array index)' % g['function'], 'file': '%s:%d' % (pml_extract.SRC, g['line']),
                               'route': 'R3 extract (slice) -> idx_%s in work/pml/pml_extracted.c' % g['function'], 'dropped': g['dropped']})
    if ext.get('array_len_guard'):
        g = ext['array_len_guard']
        part.functions.append({'function': 'PromelaDataModel::setVariable, case PML_NAME (guard on the length of an assigned array)', 'file': '%s:%d' % (pml_extract.SRC, g['line']),
                               'route': 'R3 extract (slice) -> arrlen_setVariable in work/pml/pml_extracted.c', 'dropped': g['dropped']})
    part.extra['arms_not_extracted'] = ext['not_extracted']
    part.extra['operator_tokens_without_arm'] = ext['missing']
    part.extra['arms_whose_operand_order_is_left_to_the_compiler'] = [a['token'] for a in ext['arms'] if a.get('operand_order_left_to_compiler')]
    jobs = []
    for h, tok, n in entries + [('h_arms_present', None, None), ('h_dataToBool', 'PML_NEG', 1)]:
        jobs.append(cbmcrun.Job(h, [hpath], h, wd, dfcc=False, includes=[HERE, wd],
                                defines={'PML_EXTRACTED': '"%s"' % cpath},
                                checks=['--bounds-check', '--pointer-check', '--div-by-zero-check',
                                        '--no-signed-overflow-check', '--no-undefined-shift-check'],
                                # two instances of a multiplier/divider circuit are equal by congruence in SMT; SAT times out on them
                                cbmc_flags=['--drop-unused-functions'] + (['--z3'] if tok in ('PML_TIMES', 'PML_DIVIDE', 'PML_MODULO') else []),
                                timeout=900, mem_gb=8,
                                meta={'token': tok, 'arity': n, 'back_end': 'z3 4.8.12 (SMT2)' if tok in ('PML_TIMES', 'PML_DIVIDE', 'PML_MODULO') else 'MiniSat'}))
    jobs.append(cbmcrun.Job('h_data_subscript', [hpath], 'h_data_subscript', wd, enforce='data_subscript', apply_loop_contracts=True, includes=[HERE, wd],
                            defines={'PML_EXTRACTED': '"%s"' % cpath}, cbmc_flags=['--drop-unused-functions'], timeout=900, mem_gb=8,
                            meta={'token': 'ELEM', 'arity': 2, 'back_end': 'MiniSat; loop contracts (no unwinding)'}))
    jobs.append(cbmcrun.Job('h_decl_array', [hpath], 'h_decl_array', wd, enforce='decl_array', apply_loop_contracts=True, includes=[HERE, wd],
                            defines={'PML_EXTRACTED': '"%s"' % cpath}, cbmc_flags=['--drop-unused-functions'], timeout=900, mem_gb=8,
                            meta={'token': 'DECL', 'arity': 1, 'back_end': 'MiniSat; loop contract (no unwinding)'}))
    part.functions.append({'function': 'PromelaDataModel::evaluateDecl, branch PML_VAR_ARRAY (array declaration)', 'file': '%s:%d' % (pml_extract.SRC, ext['decl_array']['line']),
                           'route': 'R3 extract -> decl_array in work/pml/pml_extracted.c; value list abstracted to its length; one loop contract',
                           'dropped': ext['decl_array']['dropped']})
    part.functions.append({'function': 'PromelaDataModel::init (decision whether the declared variable is assigned)', 'file': '%s:%d-%d' % ((pml_extract.SRC,) + tuple(ext['init_slice']['lines'])),
                           'route': 'R3 extract (slice) -> init_slice in work/pml/pml_extracted.c', 'dropped': ext['init_slice']['dropped']})
    part.functions.append({'function': 'Data::operator[](const size_t index)', 'file': '%s:%d-%d' % ((pml_extract.DATA_H,) + tuple(ext['data_subscript_lines'])),
                           'route': 'R3 extract -> data_subscript in work/pml/pml_extracted.c; std::list abstracted to its length, iterator to its position; two loop contracts',
                           'dropped': 'the payload of the list elements'})
    with ThreadPoolExecutor(common.NCPU) as ex:
        results = list(ex.map(cbmcrun.verify, jobs))
    for r in results:
        part.add_job(r)
        if r['status'] == 'ok' and r['meta'].get('token') == 'DECL' and not any(k.startswith('loop_') for k in (r.get('classes') or {})):
            part.errors.append('h_decl_array: no loop-contract obligations generated (loop contract silently dropped)')
        if r['status'] == 'ok' and r['meta'].get('token') == 'ELEM' and not any(k.startswith('loop_') for k in (r.get('classes') or {})):
            part.errors.append('h_data_subscript: no loop-contract obligations generated (loop contracts silently dropped)')
        if r['status'] != 'ok':
            continue
        tok, n = r['meta'].get('token'), r['meta'].get('arity')
        seen_inputs = set()
        for f in r['failed']:
            if tok is None:
                m = re.search(r'token (PML_\w+)', f['description'])
                mt = m.group(1) if m else '?'
                ok, text = native_replay(mt, 2, 3, 4, wd) if mt in SYM else (False, '')
                payload = {'property': 'C17', 'engine': 'pmlarms', 'obligation': f['property'], 'description': f['description'],
                           'token': mt, 'arity': 2, 'v1': 3, 'v2': 4, 'native_replay_output': text}
                path = common.write_replay('C17', 'present_' + mt, payload)
                part.violations.append({'obligation': 'O_present %s' % mt, 'replay': path, 'reproduced': ok, 'what': f['description'] + ' | ' + text, 'token': mt, 'kind': 'present'})
                continue
            v1, v2 = witness(f.get('trace'))
            if tok == 'ELEM':
                n_ = idx_ = None
                for st in f.get('trace') or []:
                    if st.get('lhs') == 'wit_n' and st.get('binary'):
                        n_ = int(st['binary'], 2)
                    if st.get('lhs') == 'wit_idx' and st.get('binary'):
                        idx_ = int(st['binary'], 2)
                # reachable through the promela datamodel with a declared but uninitialised array (its value list is empty): read arr[index]
                ridx = min(idx_ if idx_ is not None else 1, 6)
                ok, text = native_replay_index('getVariable', ridx, ridx + 1, wd, uninitialised=True)
                if not ok:
                    ok2, text2 = native_replay_elem(ridx, wd)
                    ok, text = ok2, text + ' || ' + text2
                payload = {'property': 'C17', 'engine': 'pmlarms', 'obligation': f['property'], 'description': f['description'], 'token': tok, 'arity': 2,
                           'list_length': n_, 'index': idx_, 'v1': ridx, 'v2': ridx + 1, 'native_replay_output': text}
                path = common.write_replay('C17', '%s_%s' % (r['name'], f['property']), payload)
                part.violations.append({'obligation': '%s %s' % (r['name'], f['property']), 'replay': path, 'reproduced': ok,
                                        'what': '%s | list length %s, index %s | %s' % (f['description'], n_, idx_, text), 'token': tok, 'arity': 2, 'kind': 'elem', 'v1': ridx, 'v2': ridx + 1})
                continue
            if tok == 'INIT':
                ok, text = native_replay_init(wd)
                payload = {'property': 'C17', 'engine': 'pmlarms', 'obligation': f['property'], 'description': f['description'], 'token': tok, 'arity': 1,
                           'data_empty': v1, 'v1': v1 if v1 is not None else 1, 'v2': 0, 'native_replay_output': text}
                path = common.write_replay('C17', '%s_%s' % (r['name'], f['property']), payload)
                part.violations.append({'obligation': '%s %s' % (r['name'], f['property']), 'replay': path, 'reproduced': ok,
                                        'what': '%s | %s' % (f['description'], text), 'token': tok, 'arity': 1, 'kind': 'init', 'v1': v1 if v1 is not None else 1, 'v2': 0})
                continue
            if tok == 'DECL':
                rs = v1 if (v1 is not None and 1 <= v1 <= 6) else 3
                ok, text = native_replay_decl(rs, wd)
                payload = {'property': 'C17', 'engine': 'pmlarms', 'obligation': f['property'], 'description': f['description'], 'token': tok, 'arity': 1,
                           'declared_size': v1, 'v1': rs, 'v2': 0, 'native_replay_output': text}
                path = common.write_replay('C17', '%s_%s' % (r['name'], f['property']), payload)
                part.violations.append({'obligation': '%s %s' % (r['name'], f['property']), 'replay': path, 'reproduced': ok,
                                        'what': '%s | declared size %s | %s' % (f['description'], v1, text), 'token': tok, 'arity': 1, 'kind': 'decl', 'v1': rs, 'v2': 0})
                continue
            if tok == 'ARRLEN':
                sz = ln = None
                for st in f.get('trace') or []:
                    if st.get('lhs') == 'wit_size' and st.get('binary'):
                        sz = int(st['binary'], 2)
                    if st.get('lhs') == 'wit_len' and st.get('binary'):
                        ln = int(st['binary'], 2)
                d = max(-2, min(2, (ln - sz))) if sz is not None and ln is not None else 0
                ok, text = native_replay_arrlen(3, 3 + d, wd)
                payload = {'property': 'C17', 'engine': 'pmlarms', 'obligation': f['property'], 'description': f['description'], 'token': tok, 'arity': 2,
                           'declared_size': sz, 'assigned_length': ln, 'v1': 3, 'v2': 3 + d, 'native_replay_output': text}
                path = common.write_replay('C17', '%s_%s' % (r['name'], f['property']), payload)
                part.violations.append({'obligation': '%s %s' % (r['name'], f['property']), 'replay': path, 'reproduced': ok,
                                        'what': '%s | declared %s, assigned %s | %s' % (f['description'], sz, ln, text), 'token': tok, 'arity': 2, 'kind': 'arrlen', 'v1': 3, 'v2': 3 + d})
                continue
            if tok and tok.startswith('INDEX_'):
                fn = tok[len('INDEX_'):]
                if v1 is None:
                    v1, v2 = -1, 3
                ok, text = native_replay_index(fn, v1, v2, wd)
                payload = {'property': 'C17', 'engine': 'pmlarms', 'obligation': f['property'], 'description': f['description'],
                           'token': tok, 'arity': 2, 'v1': v1, 'v2': v2, 'native_replay_output': text}
                path = common.write_replay('C17', '%s_%s' % (r['name'], f['property']), payload)
                part.violations.append({'obligation': '%s %s' % (r['name'], f['property']), 'replay': path, 'reproduced': ok,
                                        'what': '%s | %s' % (f['description'], text), 'token': tok, 'arity': 2, 'kind': 'index', 'v1': v1, 'v2': v2})
                continue
            if v1 is None:
                v1, v2 = 0, 0
                ok, text = False, 'no witness operands in the trace'
            else:
                ok, text = native_replay(tok, n, v1, v2, wd)
            payload = {'property': 'C17', 'engine': 'pmlarms', 'obligation': f['property'], 'description': f['description'],
                       'token': tok, 'arity': n, 'v1': v1, 'v2': v2, 'native_replay_output': text}
            path = common.write_replay('C17', '%s_%s' % (r['name'], f['property']), payload)
            kind = 'arity' if 'O_arity' in f['description'] else ('fault' if ('O_fault' in f['description'] or 'division' in f['description']) else 'value')
            part.violations.append({'obligation': '%s %s' % (r['name'], f['property']), 'replay': path, 'reproduced': ok,
                                    'what': '%s | %s' % (f['description'], text), 'token': tok, 'arity': n, 'kind': kind, 'v1': v1, 'v2': v2})
    return part


def replay(path):
    d = json.load(open(path))
    if d['token'] == 'ELEM':
        ok, text = native_replay_index('getVariable', d['v1'], d['v2'], os.path.join(common.WORK, 'pml'), uninitialised=True)
        if not ok:
            ok, t2 = native_replay_elem(d['v1'], os.path.join(common.WORK, 'pml'))
            text += ' || ' + t2
    elif d['token'] == 'INIT':
        ok, text = native_replay_init(os.path.join(common.WORK, 'pml'))
    elif d['token'] == 'DECL':
        ok, text = native_replay_decl(d['v1'], os.path.join(common.WORK, 'pml'))
    elif d['token'] == 'ARRLEN':
        ok, text = native_replay_arrlen(d['v1'], d['v2'], os.path.join(common.WORK, 'pml'))
    elif d['token'].startswith('INDEX_'):
        ok, text = native_replay_index(d['token'][len('INDEX_'):], d['v1'], d['v2'], os.path.join(common.WORK, 'pml'))
    else:
        ok, text = native_replay(d['token'], d['arity'], d['v1'], d['v2'], os.path.join(common.WORK, 'pml'))
    print(text)
    return 1 if ok else 0


if __name__ == '__main__':
    import time
    t0 = time.time()
    p = run('quick')
    print(p.obligations, p.discharged, p.errors)
    for v in p.violations:
        print(v['obligation'], v['reproduced'], v['what'][:400])
    print(p.extra)
    print(time.time() - t0)
