/* Bounded harness for the two extracted nameMatch copies (C12).  All strings of length <= L
 * over the full 8-bit alphabet (NUL excluded); loops unwound with unwinding assertions. */
#include <stdbool.h>
#include "vstr.h"
#include "nm_spec.h"
#include NM_EXTRACTED
#ifndef L
#define L 6
#endif
size_t nondet_size_t(void);
char nondet_char(void);

static vstr nondet_vstr(void) {
  vstr s;
  s.len = nondet_size_t();
  __CPROVER_assume(s.len <= L);
  for (size_t i = 0; i <= VSTR_CAP; i++) {
    char c = nondet_char();
    if (i < s.len) { __CPROVER_assume(c != 0); s.b[i] = c; } else s.b[i] = 0;
  }
  return s;
}

/* witness copies: plain globals so that the counterexample strings appear in CBMC's trace */
size_t wit_dlen, wit_nlen; char wit_d[VSTR_CAP + 1], wit_n[VSTR_CAP + 1];
static void witness(const vstr *d, const vstr *n) {
  wit_dlen = d->len; wit_nlen = n->len;
  for (size_t i = 0; i <= VSTR_CAP; i++) { wit_d[i] = d->b[i]; wit_n[i] = n->b[i]; }
}

#ifdef KF_EXCLUDE
#include "nm_known.h"
#else
#define KF_EXCLUDED(d, n) 0
#endif

#define BODY(FN)                                                                                   \
  vstr d = nondet_vstr(), n = nondet_vstr();                                                       \
  witness(&d, &n);                                                                                 \
  bool r = FN(d, n); /* shim preconditions + termination are checked for arbitrary strings */      \
  __CPROVER_assert(0, "CANARY returns");                                                           \
  if (spec_wf_descs(&d) && spec_wf_name(&n) && !KF_EXCLUDED(&d, &n)) {                             \
    int s = nm_spec(&d, &n);                                                                       \
    __CPROVER_assert(0, "CANARY well-formed input");                                               \
    if (s && r) __CPROVER_assert(0, "CANARY match");                                               \
    if (!s && !r) __CPROVER_assert(0, "CANARY no match");                                          \
    __CPROVER_assert(!r || s, "O_sound: nameMatch() true implies some descriptor matches the name (3.12.1, case sensitive)"); \
    __CPROVER_assert(!s || r, "O_complete: a matching descriptor implies nameMatch() true (3.12.1)"); \
  }

void h_nm_core(void) { BODY(nm_core) }
void h_nm_scaffold(void) { BODY(nm_scaffold) }
void h_nm_forward(void) {
  vstr d = nondet_vstr(), n = nondet_vstr();
  witness(&d, &n);
  bool a = nm_forward(n, d), b = nm_core(d, n);
  __CPROVER_assert(0, "CANARY returns");
  __CPROVER_assert(a == b, "O_forward: InterpreterImpl::isMatched(event, descriptors) is nameMatch(descriptors, event.name) - arguments in this order, nothing added");
}
void h_nm_same(void) {
  vstr d = nondet_vstr(), n = nondet_vstr();
  witness(&d, &n);
  bool a = nm_core(d, n), b = nm_scaffold(d, n);
  __CPROVER_assert(0, "CANARY returns");
  __CPROVER_assert(a == b, "O_same: interpreter matcher and generated-C scaffolding matcher agree on every input");
}
