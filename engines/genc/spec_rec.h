/* Spec functions for the structural tables, written from the SCXML Recommendation (3.3, 3.4, 3.10-3.13,
 * Appendix D: getTransitionDomain, findLCCA, computeExitSet, selectTransitions/removeConflictingTransitions)
 * over the independently read document facts d_* (docfacts.py) - NOT from Predicates.cpp / ChartToC.cpp.
 * Every function is total over constant data; CBMC evaluates them with bounds checking. */
#ifndef SPEC_REC_H
#define SPEC_REC_H

#define K_SCXML 0
#define K_STATE 1
#define K_PARALLEL 2
#define K_FINAL 3
#define K_HSHALLOW 4
#define K_HDEEP 5
#define K_INITIAL 6

static int sp_bit(const unsigned char *s, int i) { return (s[i >> 3] >> (i & 7)) & 1; }
static void sp_set(unsigned char *s, int i) { s[i >> 3] = (unsigned char)(s[i >> 3] | (1u << (i & 7))); }
static void sp_zero(unsigned char *s, int nbytes) { for (int b = 0; b < nbytes; b++) s[b] = 0; }

static int sp_proper(int i) { return d_kind[i] <= K_FINAL; }
static int sp_is_history(int i) { return d_kind[i] == K_HSHALLOW || d_kind[i] == K_HDEEP; }
/* d is a proper descendant of a */
static int sp_desc(int d, int a) {
  int x = d;
  for (int n = 0; n < D_N; n++) {
    if (x == 0) return 0;
    x = d_parent[x];
    if (x == a) return 1;
  }
  return 0;
}
static int sp_child(int c, int p) { return c != 0 && d_parent[c] == p; }
static int sp_has_proper_child(int i) {
  for (int j = 1; j < D_N; j++) if (sp_child(j, i) && sp_proper(j)) return 1;
  return 0;
}
/* "compound state: a state that has state, parallel or final children"; the <scxml> root counts */
static int sp_compound(int i) { return d_kind[i] == K_SCXML || (d_kind[i] == K_STATE && sp_has_proper_child(i)); }
static int sp_atomic(int i) { return (d_kind[i] == K_STATE && !sp_has_proper_child(i)) || d_kind[i] == K_FINAL; }

/* expected USCXML_STATE_* code (without the HAS_HISTORY flag) */
static int sp_type(int i) {
  switch (d_kind[i]) {
  case K_INITIAL: return USCXML_STATE_INITIAL;
  case K_FINAL: return USCXML_STATE_FINAL;
  case K_HDEEP: return USCXML_STATE_HISTORY_DEEP;
  case K_HSHALLOW: return USCXML_STATE_HISTORY_SHALLOW;
  case K_PARALLEL: return USCXML_STATE_PARALLEL;
  case K_SCXML: return USCXML_STATE_COMPOUND;
  default: return sp_has_proper_child(i) ? USCXML_STATE_COMPOUND : USCXML_STATE_ATOMIC;
  }
}

/* post-order position comparison on a tree given in pre-order indices */
static int sp_post_before(int i, int j) { return sp_desc(i, j) || (!sp_desc(j, i) && i < j); }

/* default completion of a non-history element (3.3 'initial', 3.4, 3.6) */
static void sp_completion(int i, unsigned char *out) {
  sp_zero(out, USCXML_MAX_NR_STATES_BYTES);
  if (d_kind[i] == K_PARALLEL) {
    for (int j = 1; j < D_N; j++) if (sp_child(j, i) && sp_proper(j)) sp_set(out, j);
    return;
  }
  if (d_kind[i] != K_SCXML && d_kind[i] != K_STATE) return;
  if (d_has_initattr[i]) {
    for (int k = 0; k < d_ninit[i]; k++) if (d_init[i][k] >= 0) sp_set(out, d_init[i][k]);
    return;
  }
  for (int j = 1; j < D_N; j++) if (sp_child(j, i) && d_kind[j] == K_INITIAL) { sp_set(out, j); return; }
  for (int j = 1; j < D_N; j++) if (sp_child(j, i) && sp_proper(j)) { sp_set(out, j); return; } /* first child in document order */
}

/* is there a history element whose parent q is a proper descendant of p, covering state d ? */
static int sp_below_nested_history(int d, int p) {
  for (int h = 1; h < D_N; h++) {
    if (!sp_is_history(h)) continue;
    int q = d_parent[h];
    if (!sp_desc(q, p)) continue;
    if (sp_desc(d, q)) return 1;
  }
  return 0;
}

/* getTransitionDomain / findLCCA on the raw targets.  returns -1 for a targetless transition */
static int sp_domain(int t) {
  if (!d_thastarget[t] || d_tntgt[t] == 0) return -1;
  int src = d_tsrc[t];
  if (d_tinternal[t] && sp_compound(src) && d_kind[src] != K_SCXML) {
    int all = 1;
    for (int k = 0; k < d_tntgt[t]; k++) if (d_ttgt[t][k] < 0 || !sp_desc(d_ttgt[t][k], src)) all = 0;
    if (all) return src;
  }
  /* nearest proper ancestor of the source that is a compound state or <scxml> and contains all targets */
  int a = src;
  for (int n = 0; n < D_N; n++) {
    if (a == 0) return 0;
    a = d_parent[a];
    if (!sp_compound(a)) continue;
    int all = 1;
    for (int k = 0; k < d_tntgt[t]; k++) if (d_ttgt[t][k] < 0 || !sp_desc(d_ttgt[t][k], a)) all = 0;
    if (all) return a;
  }
  return 0;
}
/* computeExitSet, statically: every proper state that is a proper descendant of the domain */
static void sp_exit_set(int t, unsigned char *out) {
  sp_zero(out, USCXML_MAX_NR_STATES_BYTES);
  int dom = sp_domain(t);
  if (dom < 0) return;
  for (int j = 1; j < D_N; j++) if (sp_proper(j) && sp_desc(j, dom)) sp_set(out, j);
}
static int sp_exit_intersect(int t1, int t2) {
  unsigned char a[USCXML_MAX_NR_STATES_BYTES], b[USCXML_MAX_NR_STATES_BYTES];
  sp_exit_set(t1, a); sp_exit_set(t2, b);
  for (int k = 0; k < USCXML_MAX_NR_STATES_BYTES; k++) if (a[k] & b[k]) return 1;
  return 0;
}
/* is there a parallel state p with lo a proper descendant of p and p a descendant-or-self... strictly between hi (ancestor) and lo */
static int sp_parallel_between(int lo, int hi) {
  if (d_kind[hi] == K_PARALLEL) return 1;
  int x = lo;
  for (int n = 0; n < D_N; n++) {
    if (x == 0) return 0;
    x = d_parent[x];
    if (x == hi) return 0;
    if (d_kind[x] == K_PARALLEL) return 1;
  }
  return 0;
}
/* conflict relation, two-sided: 1 = must conflict, 0 = must not conflict, 2 = left open (see DESIGN.md C05) */
static int sp_conflict(int t1, int t2) {
  int s1 = d_tsrc[t1], s2 = d_tsrc[t2];
  if (sp_exit_intersect(t1, t2)) return 1;
  if (s1 == s2) return 1;
  if (sp_desc(s1, s2)) return sp_parallel_between(s1, s2) ? 2 : 1;
  if (sp_desc(s2, s1)) return sp_parallel_between(s2, s1) ? 2 : 1;
  return 0;
}
#endif
