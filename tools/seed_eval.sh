#!/bin/bash
# usage: seed_eval.sh <property> <patch.diff> <out-file> [tier]   -- applies the patch to /repo, runs the check, reverts.
P=$1; PATCH=$2; OUT=$3; TIER=${4:-quick}
cd /repo || exit 2
if [ -n "$(git status --porcelain --untracked-files=no)" ]; then echo "/repo not clean"; exit 2; fi
git apply "$PATCH" || { echo "patch does not apply to /repo"; exit 2; }
cd /verif && ./check $P --tier $TIER > "$OUT" 2>&1; RC=$?
git -C /repo checkout -q -- .
echo "check $P rc=$RC  violations=$(grep -c '^VIOLATION' "$OUT")  $(grep '^VIOLATION' "$OUT" | head -1 | cut -c1-200)"
