"""C05 - transpiler computes the chart's structural relations correctly (C back end; DESIGN.md section 3, C05)."""
from props import genc_common


def check(tier):
    expl = ('Translation validation per emitted document: the state/transition tables embedded in the C output of uscxml-transform '
            '(built from /repo on every run) are compared, column by column, with spec functions written from the Recommendation over an '
            'independent XML reading of the document: order (pre-order, post-fix priority of transitions), parent, children, ancestors, '
            'type, default completion, history completion, targets, transition type, exit sets, conflict relation (two-sided). All inputs '
            'are constants, so every obligation is closed and CBMC evaluates it with bounds checking. The Promela copy: the table-initialisation '
            'statements of the emitted Promela model (valid C as they stand) are cut out mechanically, evaluated, and every column is compared '
            'with the C table of the same document (obligations C05.pml.*). Programs = corpus, NOT all documents; the VHDL copy of the tables '
            '(equations in emitted VHDL text) is not covered.')
    return genc_common.account('C05', tier, lambda key, tag, f: key in ('T', 'P') and tag in ('C05', ''), expl, 'translation_validation')


def replay(path):
    return genc_common.replay(path)
