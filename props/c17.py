"""C17 - Promela datamodel evaluates with Promela's integer semantics (claimed in part; DESIGN.md section 3, C17)."""
import importlib.util
import os
import time

import common


def _load():
    spec = importlib.util.spec_from_file_location('run_pml', os.path.join(common.VERIF, 'engines/extract/run_pml.py'))
    m = importlib.util.module_from_spec(spec)
    spec.loader.exec_module(m)
    return m


def check(tier):
    t0 = time.time()
    part = _load().run(tier)
    expl = ('Each operator arm of PromelaDataModel::evaluateExpr (+ - * / % << >> < <= > >= == != && || !, unary minus) is extracted '
            'mechanically to a C function on every run and verified loop-free over the FULL 32-bit domain of both operand values, once per '
            'arity with which the grammar (promela.ypp) produces the token: O_value (result equals the C int value the Promela manual '
            'defines), O_fault (an execution error is raised exactly for / and % by zero and INT_MIN/-1, CBMC division-by-zero check '
            'inside the arm), O_arity (the arm never takes an operand the parser did not supply), O_present (every operator token of '
            'the property has an arm). Loop-free + full domain = complete proof per arm. * / %% arms are discharged by z3 (congruence), '
            'the rest by MiniSat. Also under contract: the slice of PromelaDataModel::init that decides whether a declared variable is assigned (O_default: a <data> without value keeps the 0 of its declaration, one with a value is assigned; loop-free, all inputs), the array declaration branch of evaluateDecl (O_decl: exactly `size` elements, all 0, declared size recorded, for every int size, by a loop contract; value list abstracted to its length), the guard on the length of a whole array assigned to a declared array (setVariable/PML_NAME: an execution error exactly for len > size, all size_t; loop-free), the integer guards on an array index in getVariable/setVariable (O_index: an execution error '
            'exactly for index < 0 or index >= size, for all ints) and Data::operator[](size_t) with the list abstracted to its length (O_elem: '
            'the dereferenced iterator is element number index, never end(), for every list length and index, by loop contracts). NOT covered: '
            'precedence/associativity (bison grammar), operand evaluation order, the rest of variable storage.')
    return common.finish('C17', tier, 'proof', [part], t0, expl)


def replay(path):
    return _load().replay(path)
