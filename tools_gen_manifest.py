#!/usr/bin/env python3
"""Regenerates MANIFEST.json from the tables below (kept as a script so the manifest stays valid and consistent)."""
import json, os
HERE = os.path.dirname(os.path.abspath(__file__))

NA = {
 'C01': 'Subject is LargeMicroStep::step + InterpreterImpl + BasicContentExecutor: C++14 over Xerces DOM, boost flat_set, std::list, exceptions and virtual callbacks. CBMC\'s C++ front end cannot load any of these translation units and no mechanical extraction keeps them the code that runs; a hand-written C look-alike would be a model, which this family excludes.',
 'C03': 'Relational (2-safety) property of the two C++ micro-step engines; neither can be loaded by CBMC (see C01), and a contract needs both.',
 'C06': 'Subject is Promela text emitted by C++ streaming code; there is no contract language or deductive verifier for emitted Promela in this family (spin would be a different technique) and the reference interpreter is out of reach (C01).',
 'C07': 'Mechanism is C++ exception flow (catch ErrorEvent -> enqueue -> rethrow) across virtual datamodel calls over the whole interpreter; nothing on that path is a C leaf. The one reachable sub-obligation (arithmetic faults in the Promela evaluator) is discharged and reported under C17, not counted here.',
 'C08': 'Quantifies over thread interleavings of std::recursive_mutex / condition_variable code; CBMC code contracts are sequential and the file is C++.',
 'C09': 'Timer thread + libevent + mutex races and wall-clock time; contracts cannot express due order/cancellation races, and proving the only sequential leaf (delay parsing) would decide nothing the statement says.',
 'C10': 'Life-cycle API protocol over threads, destruction order and bounded-time teardown: liveness under all interleavings of C++ objects, outside deductive function contracts.',
 'C11': 'Two interpreter instances on two threads with unsynchronised flags and join-on-stop (USCXMLInvoker.cpp): schedules across C++ objects, out of reach.',
 'C13': 'Monitor callbacks are macros iterating a std::set<InterpreterMonitor*> inside the C++ engines (see C01); not loadable.',
 'C14': 'serialize/deserialize build and read Data trees (std::map/std::list) and restart threads; whole-interpreter C++ state, no C leaf that carries the property.',
 'C16': 'getLuaAsData/getDataAsLua are LuaBridge template code over lua_State*; the behaviour in question is that of the Lua VM behind an external C API; no C-level leaf to put under contract.',
 'C18': 'Subject is VHDL signal assignments emitted as text; there is no VHDL front end in this family, and translating the equations to C by script would be a hand-made semantics of VHDL (a model, not the code).',
 'C19': 'InterpreterIssue::forInterpreter is ~1000 lines of DOM traversal over std::map<std::string,std::list<DOMElement*>> plus datamodel plug-in calls; the consequent ("running it is safe") refers to the engines, which are out of reach too.',
 'C20': 'Determinism across processes is a 2-safety property over address-space layout; the offending constructs are C++ (a DOM pointer streamed into the symbol prefix, std::map keyed by pointers). The C parts involved (MD5.c) are deterministic by construction and proving that says nothing about the statement.',
}

CHECKS = {
 'C02': dict(
   engine='genc-doc',
   category='translation_validation',
   text='Generated-C machine only (the two interpreter engines are C++/DOM and not applicable): for each corpus document the C emitted by uscxml-transform built from /repo is validated - the invariant "legal configuration (Recommendation 3.11, phrased over an independent XML reading of the document) + consistent remembered history" is proved inductive for the emitted uscxml_step() from the pristine context and from every context satisfying it, for every pending event and every answer of the callbacks. Histories and configurations are closed by induction; programs are a corpus (hand-written charts aimed at history/parallel/internal/initial mechanisms + W3C IRP documents), not all documents. Counterexamples are replayed natively on the emitted file under ASan and searched for reachability from initialisation.',
   note='Trusted: CBMC 6.11, the build of uscxml-transform from /repo, python xml.etree reading of the document, wf.h/spec_rec.h transcription of 3.11. Assumed: callbacks honour const ctx; derived preconditions (is_matched, raise_done_event, invoke non-NULL). Nested-history documents: history clause not decided by the inductive argument; for the hand-written ones a bounded stand-in (9 steps from initialisation) runs, counted as bounded; one known finding (KF-C02-1) is reported by it. Where the loop contract of the DEQUEUE_EVENT loop exceeds the tool budget the document counts as bounded.',
   technique='CBMC contract instrumentation (goto-instrument --dfcc) on the emitted uscxml_step() per document: inductive invariant as pre/postcondition, loop contract + glue lemma for the one unbounded loop',
   design='3/C02'),
 'C04': dict(
   engine='genc-doc',
   category='translation_validation',
   text='Second sentence of C04 (the emitted step function never reads or writes outside the arrays it declares), decided per emitted document for ALL contexts and ALL callback behaviours: every pointer/bounds/overflow/conversion check CBMC generates in the emitted uscxml_step(), executable-content functions and bit_* helpers with the concrete emitted tables; the dfcc frame of a contract on uscxml_step; life-cycle and dequeue-order postconditions; sizing facts of the generator. The unbounded DEQUEUE_EVENT loop is closed by a loop contract and a glue lemma. Of the first sentence, against the algorithm of the Recommendation instead of the interpreter (which is C++ and out of reach): the configuration after every step equals a spec function of one microstep (optimal enabled transition set, exit set, entry set with history and default completion; engines/genc/spec_step.h) for every legal pre-state and every answer of is_matched/is_true; done events are raised exactly as 3.7 prescribes; for charts following a log convention (all generated charts) the onexit / transition / onentry content that runs is exactly exit set / transition set / entry set, in the prescribed order. Equality with the trace of the interpreter itself is NOT decided.',
   note='Trusted: CBMC 6.11, build of uscxml-transform from /repo. Assumed: callbacks honour const ctx and return OK or an error code; derived preconditions listed in the evidence; machines nested in <invoke><content> are validated like documents of their own, those pulled in by src= are not; is_matched answers are a function of the transition and is_true answers of the condition text within one step; in documents with nested histories the spec-function clauses are asserted only for steps whose entry set involves no history element; <foreach> bounded to 2 items in the harness.',
   technique='CBMC code contracts (goto-instrument --dfcc --enforce-contract uscxml_step, loop contract via --loop-contracts-file) on the emitted C per document',
   design='3/C04'),
 'C05': dict(
   engine='genc-doc',
   category='translation_validation',
   text='For each corpus document the tables embedded in the emitted C (order, parent, children, ancestors, type, completion, history completion, targets, transition type, exit sets, conflicts) are compared by CBMC with spec functions written from the Recommendation over an independent XML reading of that document; all inputs are constants, so each obligation is closed and CBMC acts as an evaluator with bounds checking. Validation of each emitted program against a spec - not a proof about Predicates.cpp for all documents (C++/DOM, out of reach). The Promela copy: the table-initialisation statements of the emitted Promela model are cut out mechanically, evaluated by CBMC and compared column by column with the C tables of the same document. The VHDL copy (equations in emitted VHDL text) is not covered.',
   note='Trusted: CBMC 6.11, python xml.etree reading + id-based matching of emitted states to document elements, spec_rec.h transcription. Conflict relation stated two-sided (ancestrally related sources with a parallel state between are left open); exit set/conflicts not demanded for the never-selected default transitions of history/initial.',
   technique='CBMC as bounds-checked evaluator of closed obligations: emitted C tables vs Recommendation-derived spec functions per document',
   design='3/C05'),
 'C12': dict(
   engine='namematch',
   category='other',
   text='Bounded exhaustive, labelled bounded and never counted as proved: uscxml::nameMatch (String.cpp) and its copy in the generated-C scaffolding (test-gen-c.cpp) are extracted mechanically to C on every run (std::string operations -> fixed-capacity shim asserting std::string preconditions) and CBMC decides, for ALL descriptor lists and event names up to length L (6 quick / 8 thorough) over the full 8-bit alphabet with unwinding assertions: result == spec function transcribed from Recommendation 3.12.1 (O_sound, O_complete) on well-formed inputs, no std::string precondition violated and termination on arbitrary strings, both copies agree (O_same), and InterpreterImpl::isMatched forwards (descriptor list, event name) to the matcher unchanged (O_forward). Counterexamples are replayed natively on the real String.cpp and the verbatim scaffold text. The Trie-based static resolution in the Promela/VHDL back ends is not covered.',
   note='Trusted: extraction rules + vstr shim ("C" locale), spec nm_spec.h, CBMC. Bound: string length <= L; complete inside the bound.',
   technique='bounded CBMC (unwinding assertions) on mechanically extracted C against a Recommendation-derived spec function; native replay on the real code',
   design='3/C12'),
 'C17': dict(
   engine='pmlarms',
   category='proof',
   text='Each operator arm of PromelaDataModel::evaluateExpr is extracted mechanically to C on every run and verified loop-free over the full 2^32 x 2^32 operand domain, once per arity the grammar produces: value equals C int arithmetic as the Promela manual defines it, an execution error is raised exactly for faulting operations (/ and % by zero, INT_MIN/-1), no arm takes an operand the parser did not supply, every operator of the property has an arm. Loop-free + full domain = complete proof of these per-arm contracts. Also under contract: the integer guards on an array index in getVariable/setVariable (an execution error exactly for index < 0 or index >= size, all ints) and Data::operator[](size_t) with the std::list abstracted to its length (the dereferenced iterator is element number index, never end(), for every list length and index; two loop contracts, no unwinding); three more slices of variable storage: the array declaration branch of evaluateDecl (exactly `size` elements, all 0, for every int size; loop contract enforced with --dfcc), the length guard of setVariable for a whole array assigned to a declared array (an execution error exactly for len > size), and the decision in PromelaDataModel::init whether a declared variable is assigned (a <data> without value keeps the 0 of its declaration). Precedence/associativity (bison), operand order, the rest of variable storage and read-back are outside the reach of contracts on C text and are NOT claimed.',
   note='Trusted: extraction rules (pml_extract.py), spec pml_spec.h, Data(int)/dataToInt round trip, CBMC + z3 4.8.12 for the * / % arms. Assumed: integer-valued operands; left operand = textually first *opIter++ (unsequenced in C++); two\'s-complement wrap of + - *.',
   technique='CBMC (SAT, z3 for mult/div congruence) on mechanically extracted loop-free arms and slices, full operand domain; goto-instrument --dfcc with loop contracts for the two list loops (Data::operator[], evaluateDecl); native replay through the real interpreter',
   design='3/C17'),
 'C15': dict(
   engine='jsmn+jsonstr',
   category='proof',
   text='Unbounded part: all six functions of the unmodified contrib/src/jsmn/jsmn.c (the tokeniser behind Data::fromJSON) carry contracts - pre/postconditions, frames, loop invariants and decreases clauses for every loop - enforced per function by goto-instrument --dfcc and discharged by CBMC for every NUL-terminated input up to the stated object size and every token budget: no out-of-bounds read/write, no overflow, termination, tokens handed out lie inside the consumed input, untouched tokens keep the zero sentinel Data::fromJSON relies on. Only these count as proved. The string layer (jsonEscape/jsonUnescape) and the token walk of Data::fromJSON are mechanically extracted to C on every run and checked bounded; they are reported in separate bounded_* counters. Two slices of Data::toJSON (key statement, atom branches) are extracted as well and must emit text the real jsmn_parse_string reads back as one string token with the right content (bounded). The rest of Data::toJSON, tree building and Event<->Data are C++ containers and are not covered.',
   note='Trusted: CBMC 6.11.0 + its C semantics (LP64, two\'s complement, signed char); object-size bounds MAXN=4096 / MAXT (8 quick, 16 thorough); jsmn_alloc_token/jsmn_fill_token inlined into their callers (their own contracts enforced separately); extraction rules + vstr shim for the bounded layers.',
   technique='CBMC code contracts (goto-instrument --dfcc, loop contracts from a side file) on the unmodified jsmn.c; bounded CBMC on mechanically extracted C for the string layer',
   design='3/C15'),
}

def main():
    checks = []
    for pid in sorted(CHECKS):
        c = CHECKS[pid]
        checks.append({
            'property_id': pid,
            'quick_cmd': './check %s --tier quick' % pid,
            'thorough_cmd': './check %s --tier thorough' % pid,
            'evidence_file': 'evidence/%s.json' % pid,
            'replay_cmd_template': './check %s --replay {path}' % pid,
            'engine': c['engine'],
            'level_claimed': {'category': c['category'], 'text': c['text'], 'design_ref': 'DESIGN.md section ' + c['design']},
            'level_note': c['note'],
            'technique': c['technique'],
        })
    na = [{'property_id': p, 'reason': NA[p]} for p in sorted(NA)]
    # properties in the design that are planned but not built yet stay not_applicable until their check exists
    PLANNED = {'C02', 'C04', 'C05', 'C12', 'C17'}
    for p in sorted(PLANNED - set(CHECKS)):
        na.append({'property_id': p, 'reason': 'check under construction in this round (contract engine designed in DESIGN.md, not yet registered); not claimed until it runs'})
    na.sort(key=lambda x: x['property_id'])
    m = {
        'version': 1,
        'setup_cmd': './setup.sh',
        'hooks': {
            'guard': 'USCXML_VERIF',
            'enable': 'none needed: contracts are attached from harness re-declarations and loop contracts from a side file (goto-instrument --loop-contracts-file); /repo is verified unmodified. The guard name is reserved and unused.',
            'baseline_off_cmd': 'cmake --build /repo/_build -j16 && ctest --test-dir /repo/_build -j8 --timeout 900',
            'source_commits': [],
            'add_only': True,
        },
        'engines': [
            {'name': 'jsmn', 'path': 'engines/jsmn', 'serves_properties': ['C15'], 'kind_free_text': 'CBMC contracts on the unmodified C file (route R1)'},
            {'name': 'genc-doc', 'path': 'engines/genc', 'serves_properties': ['C02', 'C04', 'C05'], 'kind_free_text': 'contracts on the emitted C of each corpus document (route R2): dfcc on uscxml_step + closed table obligations'},
            {'name': 'namematch', 'path': 'engines/extract', 'serves_properties': ['C12'], 'kind_free_text': 'rule-based extraction of C++ leaf functions to C (route R3) + bounded CBMC'},
            {'name': 'pmlarms', 'path': 'engines/extract', 'serves_properties': ['C17'], 'kind_free_text': 'rule-based extraction of switch arms to C (route R3) + CBMC over the full operand domain'},
        ],
        'checks': checks,
        'not_applicable': na,
        'notes': 'One technique family: contract-based deductive verification with CBMC 6.11 (goto-instrument --dfcc). Exit 2 of a check = machinery problem, never a violation. See DESIGN.md.',
    }
    json.dump(m, open(os.path.join(HERE, 'MANIFEST.json'), 'w'), indent=1)

if __name__ == '__main__':
    main()
