#!/bin/bash
# Regression of the machinery against every seeded change, WITHOUT touching /repo: a scratch worktree of /repo's HEAD
# gets each patch in turn; the checks run with VERIF_REPO / VERIF_BUILD / VERIF_WORK / VERIF_EVIDENCE pointing away
# from the real ones.  Expected: every seed -> exit 1 with a VIOLATION line (exit 0 = missed, exit 2 = machinery problem).
# usage: tools/regress_seeds.sh [seed-id ...]      output: one line per seed, details under $OUT
WT=${REGR_WT:-/tmp/regr_wt}; OUT=${REGR_OUT:-/tmp/regr_out}
export VERIF_REPO=$WT VERIF_BUILD=/tmp/regr_build VERIF_WORK=/tmp/regr_work VERIF_EVIDENCE=/tmp/regr_evidence
cd "$(dirname "$0")/.." || exit 2
mkdir -p "$OUT" "$VERIF_EVIDENCE"
git -C /repo worktree remove --force "$WT" 2>/dev/null; git -C /repo worktree add -q "$WT" HEAD || exit 2
SEEDS="$@"; [ -z "$SEEDS" ] && SEEDS=$(ls seeded)
for s in $SEEDS; do
  prop=$(python3 -c "import json;print(json.load(open('seeded/$s/meta.json'))['property'])")
  git -C "$WT" checkout -q -- . 
  if ! git -C "$WT" apply "$PWD/seeded/$s/patch.diff" 2>"$OUT/$s.apply.err"; then echo "$s ($prop): patch no longer applies to HEAD"; continue; fi
  case $prop in C02|C04|C05) props="C05 C04 C02";; *) props=$prop;; esac
  res=""
  for p in $props; do ./check $p --tier quick > "$OUT/$s.$p.txt" 2>&1; rc=$?; res="$res $p:rc=$rc/viol=$(grep -c '^VIOLATION' "$OUT/$s.$p.txt")"; done
  echo "$s ($prop):$res"
done
git -C /repo worktree remove --force "$WT"; rm -rf /tmp/regr_build /tmp/regr_work
