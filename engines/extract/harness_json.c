/* Bounded harnesses for C15 layers (b) and (c).  JSON_STR / JSON_WALK are the mechanically extracted functions
 * (json_extract.py); JSMN_C is the REAL contrib/src/jsmn/jsmn.c. */
#include <stdbool.h>
#include <stdlib.h>
#include "vstr.h"
#include "jsmn.h"
#ifndef WALK_TOKENS
#include JSMN_C
#endif
#ifndef L
#define L 4
#endif
size_t nondet_size_t(void);
unsigned nondet_unsigned(void);
char nondet_char(void);

int verif_thrown;
#define VERIF_TOKMAX (VSTR_CAP + 2)
#define VERIF_STACK (VSTR_CAP + 2)
static jsmntok_t verif_tokens[VERIF_TOKMAX];
static size_t verif_alloc; /* ghost: number of elements of the malloc'ed token array */
static jsmntok_t *verif_malloc_tokens(size_t n) {
  __CPROVER_assert(n <= VERIF_TOKMAX, "BOUND token array larger than the harness provides");
  verif_alloc = n;
  return verif_tokens;
}
static void verif_zero_tokens(jsmntok_t *t, size_t n) {
  for (size_t i = 0; i < n && i < VERIF_TOKMAX; i++) { t[i].type = 0; t[i].start = 0; t[i].end = 0; t[i].size = 0; }
}
static jsmntok_t *verif_tok_at(jsmntok_t *t, size_t i) {
  __CPROVER_assert(i < verif_alloc, "O_walk_bounds: t[currTok] is read outside the nrTokens+1 elements that were allocated (heap over-read)");
  return &t[i < VERIF_TOKMAX ? i : 0];
}
/* structural ghost invariant at the top of the walk loop: the containers on tokenStack are exactly the
 * containers whose extent encloses the token about to be consumed */
static jsmntok_t *verif_tok_value(jsmntok_t *t, size_t k, int tokenDepth, int dataDepth) {
  jsmntok_t *tk = verif_tok_at(t, k);
  int depth = 0;
  for (size_t j = 0; j < k && j < VERIF_TOKMAX; j++)
    if ((t[j].type == JSMN_OBJECT || t[j].type == JSMN_ARRAY) && t[j].start <= tk->start && tk->start < t[j].end) depth++;
  __CPROVER_assert(tokenDepth == depth, "O_walk_nesting: the open containers on the stack are exactly those whose extent encloses the next token (else values are attached to the wrong parent)");
  __CPROVER_assert(dataDepth == tokenDepth + 1, "O_walk_nesting: exactly one data element - the one for the value about to be consumed - lies above those of the open containers (else values are attached to the wrong parent)");
  return tk;
}
#define VERIF_MALLOC_TOKENS(n) verif_malloc_tokens((size_t)(n))
#define VERIF_ZERO_TOKENS(t, n) verif_zero_tokens(t, (size_t)(n))
#define VERIF_FREE(t) ((void)0)
#define VERIF_THROW() do { verif_thrown = 1; return; } while (0)
#define T_AT(i) (*verif_tok_at(t, (size_t)(i)))
#define T_VALUE(i) (*verif_tok_value(t, (size_t)(i), tokenDepth, dataDepth))
#define DATA_PUSH() do { __CPROVER_assert(dataDepth < VERIF_STACK, "BOUND data stack"); dataDepth++; } while (0)
#define DATA_POP() do { __CPROVER_assert(dataDepth > 0, "O_walk_stack: dataStack.pop_back() on an empty list (undefined behaviour)"); dataDepth--; } while (0)
/* string payload: the text of a token that becomes an object key or the atom of a value must have gone through jsonUnescape
   (toJSON escapes both; unescaping a primitive is the identity, so the code may do it unconditionally) */
#define KEY_USE(unesc) __CPROVER_assert(unesc, "O_walk_unescape: an object key is the unescaped token text (toJSON escapes keys)")
#define ATOM_USE(unesc) __CPROVER_assert(unesc, "O_walk_unescape: the atom of a value is the unescaped token text (toJSON escapes strings)")
#define DATA_BACK() __CPROVER_assert(dataDepth > 0, "O_walk_stack: dataStack.back() on an empty list (undefined behaviour)")
#define TOK_PUSH(x) do { __CPROVER_assert(tokenDepth < VERIF_STACK, "BOUND token stack"); if (tokenDepth < VERIF_STACK) tokenStack[tokenDepth] = (x); tokenDepth++; } while (0)
#define TOK_POP() do { __CPROVER_assert(tokenDepth > 0, "O_walk_stack: tokenStack.pop_back() on an empty list (undefined behaviour)"); tokenDepth--; } while (0)
#define TOK_BACK() (*verif_tok_back(tokenStack, tokenDepth))
static jsmntok_t *verif_tok_back(jsmntok_t *stk, int depth) {
  __CPROVER_assert(depth > 0, "O_walk_stack: tokenStack.back() on an empty list (undefined behaviour)");
  return &stk[depth > 0 && depth <= VERIF_STACK ? depth - 1 : 0];
}

/* ---- what Data::fromJSON may rely on after a successful jsmn_parse: tokens_ok ----
 * (b) extents, (c) order, (d) laminar nesting and (e) the untouched sentinel are postconditions of the jsmn_parse
 * contract PROVED for inputs of any length in layer (a) (engines/jsmn/contracts.h: TOKWF, LAMINAR, TOKEQ_OLD);
 * so is "token 0 of a parse from scratch is the opening container of the text" (FIRST_OK).  Only the clause about
 * size (> 0 iff the container has children; Data::fromJSON does not read it) rests on the bounded check against the
 * real jsmn.c in h_jsmn_structure, which re-checks all the other clauses as well. */
static int tokens_ok(const jsmntok_t *t, int n, size_t budget, size_t len, int starts_with_container) {
  if (n < 0 || (size_t)n > budget) return 0;
  /* the text handed to jsmn_parse begins with '{' or '[' (Data::fromJSON checks that first): token 0 is that container */
  if (starts_with_container && n > 0 && !(t[0].start == 0 && (t[0].type == JSMN_OBJECT || t[0].type == JSMN_ARRAY))) return 0;
  if (starts_with_container && n == 0) return 0;
  for (int i = 0; i < n; i++)
    if (!(0 <= t[i].start && t[i].start <= t[i].end && (size_t)t[i].end <= len)) return 0;
  for (int i = 0; i < n; i++) {
    if (!(t[i].type >= JSMN_PRIMITIVE && t[i].type <= JSMN_STRING)) return 0;
    if (!(0 <= t[i].start && t[i].start <= t[i].end && (size_t)t[i].end <= len && t[i].end >= 1)) return 0;   /* (b) */
    if (!((size_t)t[i].start < len)) return 0;                        /* every token begins inside the input */
    if (t[i].type != JSMN_STRING && !(t[i].start < t[i].end)) return 0; /* only a string token can be empty */
    if ((t[i].type == JSMN_OBJECT || t[i].type == JSMN_ARRAY) && !(t[i].start + 2 <= t[i].end)) return 0; /* both brackets */
    if (t[i].type == JSMN_STRING && !(t[i].start >= 1)) return 0;
    if (t[i].type == JSMN_STRING && !((size_t)t[i].end < len)) return 0; /* a string token is followed by its closing quote */
    if (i > 0 && !(t[i - 1].start < t[i].start)) return 0;                                                      /* (c) */
    for (int j = i + 1; j < n; j++) {                                                                           /* (d) */
      int container = t[i].type == JSMN_OBJECT || t[i].type == JSMN_ARRAY;
      int q = t[j].type == JSMN_STRING ? 1 : 0; /* a string token is preceded by its opening quote */
      int disjoint = t[i].end + (t[i].type == JSMN_STRING ? 1 : 0) <= t[j].start - q;
      int nested = container && t[i].start < t[j].start - q && t[j].end + q < t[i].end;
      if (!disjoint && !nested) return 0;
    }
  }
  /* size counts the tokens directly inside a container: 0 for strings and primitives, and for a container
     positive exactly if some token lies inside it (the exact count is not needed by any caller) */
  for (int i = 0; i < n; i++) {
    int any = 0;
    for (int j = i + 1; j < n; j++)
      if ((t[i].type == JSMN_OBJECT || t[i].type == JSMN_ARRAY) && t[i].start < t[j].start && t[j].end <= t[i].end) any = 1;
    if (t[i].size < 0 || (t[i].size > 0) != any) return 0;
  }
  return 1;
}

#ifdef WALK_TOKENS
/* jsmn_parse replaced by its contract: any result code; on success any token array satisfying tokens_ok, the
 * tokens not handed out untouched (the caller zeroed them) */
int nondet_int(void);
static size_t g_len;
int wit_ntok, wit_tt[VERIF_TOKMAX], wit_ts[VERIF_TOKMAX], wit_te[VERIF_TOKMAX]; /* witness: the token array of the successful pass */
static jsmnerr_t contract_jsmn_parse(jsmn_parser *p, const char *js, jsmntok_t *tokens, unsigned int num_tokens) {
  int r = nondet_int();
  __CPROVER_assume(r == JSMN_SUCCESS || r == JSMN_ERROR_NOMEM || r == JSMN_ERROR_INVAL || r == JSMN_ERROR_PART);
  int n = nondet_int();
  __CPROVER_assume(n >= 0 && (unsigned)n <= num_tokens);
  for (int i = 0; i < n && i < VERIF_TOKMAX; i++) {
    tokens[i].type = nondet_int(); tokens[i].start = nondet_int(); tokens[i].end = nondet_int(); tokens[i].size = nondet_int();
  }
  p->toknext = n;
  if (r == JSMN_SUCCESS) __CPROVER_assume(tokens_ok(tokens, n, num_tokens, g_len, 1));
  if (r == JSMN_SUCCESS) { wit_ntok = n; for (int i = 0; i < VERIF_TOKMAX; i++) { wit_tt[i] = tokens[i].type; wit_ts[i] = tokens[i].start; wit_te[i] = tokens[i].end; } }
  if (r == JSMN_ERROR_NOMEM) __CPROVER_assume((unsigned)n == num_tokens);
  return r;
}
static void contract_jsmn_init(jsmn_parser *p) { p->pos = 0; p->toknext = 0; p->toksuper = -1; }
#define jsmn_parse contract_jsmn_parse
#define jsmn_init contract_jsmn_init
#endif

#include JSON_STR
#ifdef WALK_TOKENS
/* the unescaped payload is dropped by the extraction anyway; jsonUnescape itself is checked for arbitrary input in
 * h_json_unescape_any, so the token-level walk does not execute it again */
#define json_unescape(x) (x)
#endif
#include JSON_WALK

/* witness copies */
size_t wit_len; char wit_s[VSTR_CAP + 1];

static vstr nondet_vstr(size_t maxlen) {
  vstr s;
  s.len = nondet_size_t();
  __CPROVER_assume(s.len <= maxlen);
  for (size_t i = 0; i <= VSTR_CAP; i++) {
    char c = nondet_char();
    if (i < s.len) { __CPROVER_assume(c != 0); s.b[i] = c; } else s.b[i] = 0;
  }
  wit_len = s.len;
  for (size_t i = 0; i <= VSTR_CAP; i++) wit_s[i] = s.b[i];
  return s;
}

/* (b) string layer: escape / unescape round trip, and the escaped text is ONE string token for the real tokeniser */
void h_json_roundtrip(void) {
  vstr s = nondet_vstr(L);
  vstr e = json_escape(s);
  vstr u = json_unescape(e);
  __CPROVER_assert(0, "CANARY returns");
  __CPROVER_assert(vstr_eq(&u, &s), "O_rt: jsonUnescape(jsonEscape(s)) == s");
  /* '"' + e + '"' through the real jsmn_parse_string */
  vstr q = vstr_empty();
  vstr_push(&q, '"'); vstr_append(&q, &e); vstr_push(&q, '"');
  jsmn_parser p; jsmntok_t tok[1];
  p.pos = 0; p.toknext = 0; p.toksuper = -1;
  jsmnerr_t r = jsmn_parse_string(&p, q.b, tok, 1);
  __CPROVER_assert(r == JSMN_SUCCESS && tok[0].start == 1 && (size_t)tok[0].end == 1 + e.len,
                   "O_closed: '\"' + jsonEscape(s) + '\"' is tokenised by jsmn as one string token whose extent is exactly jsonEscape(s)");
}
/* Data::toJSON, slices (json_extract.extract_tojson_slices): what the writer emits for an atom / for an object key is JSON the
   real tokeniser reads back as one string token whose unescaped content is the atom / the key */
static int tj_string_at(const vstr *r, size_t p, const vstr *expect) {
  /* r->b[p] == '"' ... closing quote; the content between them unescapes to *expect; returns index after the closing quote or 0 */
  jsmn_parser ps; jsmntok_t tok[1];
  ps.pos = (unsigned)p; ps.toknext = 0; ps.toksuper = -1;
  if (jsmn_parse_string(&ps, r->b, tok, 1) != JSMN_SUCCESS) return 0;
  if ((size_t)tok[0].start != p + 1 || tok[0].end < tok[0].start || (size_t)tok[0].end >= r->len || r->b[tok[0].end] != '"') return 0;
  vstr inner = vstr_substr(r, (size_t)tok[0].start, (size_t)(tok[0].end - tok[0].start));
  vstr u = json_unescape(inner);
  if (!vstr_eq(&u, expect)) return 0;
  return tok[0].end + 1;
}
void h_tojson_atom(void) {
  vstr s = nondet_vstr(L);
  int verbatim = nondet_bool();
  vstr r = tojson_atom(verbatim, s);
  __CPROVER_assert(0, "CANARY returns");
  if (verbatim) {
    __CPROVER_assert(r.len >= 2 && r.b[0] == '"' && (size_t)tj_string_at(&r, 0, &s) == r.len,
                     "O_tojson: a string atom is written as exactly one JSON string token whose unescaped content is the atom");
  } else if (s.len > 0) {
    __CPROVER_assert(vstr_eq(&r, &s), "O_tojson: a non-string atom (number, true/false, expression) is written as it is");
  } else {
    vstr n = vstr_lit("null");
    __CPROVER_assert(vstr_eq(&r, &n), "O_tojson: an empty non-string value is written as null");
  }
}
void h_tojson_key(void) {
  vstr key = nondet_vstr(L);
  vstr sep = nondet_bool() ? vstr_lit(", ") : vstr_empty();
  vstr indent = vstr_empty();
  int depth = nondet_bool() ? 1 : 2;
  for (int i = 0; i < depth; i++) vstr_append_lit(&indent, "  ");
  size_t longest = key.len + (nondet_bool() ? 0 : 2);
  vstr pad = vstr_empty();
  for (size_t i = 0; i < longest; i++) vstr_push(&pad, ' ');
  vstr r = tojson_key(sep, indent, pad, longest, key);
  __CPROVER_assert(0, "CANARY returns");
  size_t p = 0;
  while (p < r.len && (r.b[p] == ',' || r.b[p] == ' ' || r.b[p] == '\n' || r.b[p] == '\t' || r.b[p] == '\r')) p++;
  __CPROVER_assert(p < r.len && r.b[p] == '"', "O_tojson: an object key is preceded by separator / white space only and starts with a quote");
  size_t q = (p < r.len) ? (size_t)tj_string_at(&r, p, &key) : 0;
  __CPROVER_assert(q != 0, "O_tojson: an object key is written as one JSON string token whose unescaped content is the key");
  if (q != 0) {
    __CPROVER_assert(q < r.len && r.b[q] == ':', "O_tojson: the key is followed by a colon");
    for (size_t i = q + 1; i < r.len; i++) __CPROVER_assert(r.b[i] == ' ' || r.b[i] == '\n' || r.b[i] == '\t' || r.b[i] == '\r', "O_tojson: only white space follows the colon");
  }
}
/* jsonUnescape on arbitrary input (escape at the very end, unknown escapes) */
void h_json_unescape_any(void) {
  vstr s = nondet_vstr(L);
  vstr u = json_unescape(s);
  __CPROVER_assert(0, "CANARY returns");
  __CPROVER_assert(u.len <= s.len, "O_safe: jsonUnescape never produces more bytes than it reads");
}
#ifdef WALK_TOKENS
/* (c) the token walk of Data::fromJSON against the CONTRACT of jsmn_parse: any input text of length <= L (its
 * bytes only feed the dropped payload), any token array the tokeniser's contract allows */
void h_json_walk_tokens(void) {
  vstr s = nondet_vstr(L);
  vstr tr = vstr_trim(&s);
  g_len = tr.len;
  verif_thrown = 0;
  from_json_walk(s);
  __CPROVER_assert(0, "CANARY returns");
  if (!verif_thrown) __CPROVER_assert(0, "CANARY returns without exception");
}
#else
/* jsmn_parse really delivers what the contract above promises (bounded: restricted alphabet, length <= L) */
static int walk_alphabet(char c);
void h_jsmn_structure(void) {
  vstr s = nondet_vstr(L);
  for (size_t i = 0; i < s.len; i++) __CPROVER_assume(walk_alphabet(s.b[i]));
  unsigned budget = nondet_unsigned();
  __CPROVER_assume(budget <= VSTR_CAP);
  jsmn_parser p; jsmntok_t tok[VSTR_CAP + 1];
  for (size_t i = 0; i <= VSTR_CAP; i++) { tok[i].type = 0; tok[i].start = 0; tok[i].end = 0; tok[i].size = 0; }
  jsmn_init(&p);
  jsmnerr_t r = jsmn_parse(&p, s.b, tok, budget);
  __CPROVER_assert(0, "CANARY returns");
  if (r == JSMN_SUCCESS) {
    __CPROVER_assert(0, "CANARY success");
    if (p.toknext >= 3) __CPROVER_assert(0, "CANARY success with 3+ tokens");
    __CPROVER_assert(tokens_ok(tok, p.toknext, budget, s.len, s.len > 0 && (s.b[0] == '{' || s.b[0] == '[')), "O_structure: on success the tokens are ordered by start, lie inside the input, end >= 1, and container extents nest (what Data::fromJSON relies on)");
  }
}
#endif

#ifndef WALK_TOKENS
/* (c, monolithic) the token walk of Data::fromJSON.  Alphabet: the bytes the tokeniser distinguishes (structural characters,
 * quote, backslash, separators, one letter, one digit, one control byte, one high byte) - every other byte is
 * treated by jsmn.c exactly like 'a' (default: arm, printable) or like 0x01/0x80 (non-printable) */
static int walk_alphabet(char c) {
  return c == '{' || c == '}' || c == '[' || c == ']' || c == '"' || c == '\\' || c == ':' || c == ',' || c == ' ' ||
         c == 'a' || c == '1' || c == 1 || c == (char)-128;
}
void h_json_walk(void) {
  vstr s = nondet_vstr(L);
  for (size_t i = 0; i < s.len; i++) __CPROVER_assume(walk_alphabet(s.b[i]));
  verif_thrown = 0;
  from_json_walk(s);
  __CPROVER_assert(0, "CANARY returns");
  if (!verif_thrown) __CPROVER_assert(0, "CANARY returns without exception");
}
#endif
