// Native replay for C15 layers (b)/(c): calls the REAL uscxml::Data::fromJSON / toJSON / jsonEscape / jsonUnescape of a
// libuscxml built from /repo's working tree (run under ASan via LD_PRELOAD is not needed: the token array is heap memory,
// so the binary itself is compiled with -fsanitize=address and intercepts the library's malloc/free).
//   replay_json parse <hex>      fromJSON(bytes): prints "VALUE <json>" or "EXCEPTION"; a crash / ASan report = reproduced
//   replay_json rt <hex>         jsonUnescape(jsonEscape(s)) == s, fromJSON(toJSON([s])) == [s] and fromJSON(toJSON({s: s})) == {s: s} ; exit 1 if not
#define protected public
#include "uscxml/messages/Data.h"
#undef protected
#include "uscxml/messages/Event.h"
#include <cstdio>
#include <cstring>
#include <iostream>
using namespace uscxml;
static std::string unhex(const char *h) {
  std::string s; size_t n = strlen(h) / 2;
  for (size_t i = 0; i < n; i++) { unsigned v; sscanf(h + 2 * i, "%2x", &v); s += (char)v; }
  return s;
}
// shape of a value: arrays [..] in order, objects {..} with member shapes sorted (std::map reorders keys), atoms 'a'
static std::string shape(const Data &d) {
  if (!d.compound.empty()) {
    std::list<std::string> parts;
    for (std::map<std::string, Data>::const_iterator it = d.compound.begin(); it != d.compound.end(); ++it) parts.push_back(shape(it->second));
    parts.sort();
    std::string s = "{";
    for (std::list<std::string>::iterator it = parts.begin(); it != parts.end(); ++it) s += *it;
    return s + "}";
  }
  if (!d.array.empty()) {
    std::string s = "[";
    for (std::list<Data>::const_iterator it = d.array.begin(); it != d.array.end(); ++it) s += shape(*it);
    return s + "]";
  }
  return "a";
}
int main(int argc, char **argv) {
  if (argc < 3) return 2;
  std::string s = unhex(argv[2]);
  if (!strcmp(argv[1], "parse")) {
    try {
      Data d = Data::fromJSON(s);
      std::cout << "VALUE " << Data::toJSON(d) << std::endl;
    } catch (...) {
      std::cout << "EXCEPTION (clean failure)" << std::endl;
    }
    return 0;
  }
  if (!strcmp(argv[1], "shape") && argc > 3) {
    try {
      Data d = Data::fromJSON(s);
      std::string got = shape(d);
      std::cout << "text=" << s << " expected-shape=" << argv[3] << " fromJSON-shape=" << got << std::endl;
      if (got != argv[3]) { std::cout << "REPRODUCED values are attached to the wrong parent" << std::endl; return 1; }
      std::cout << "HELD" << std::endl;
    } catch (...) { std::cout << "EXCEPTION (clean failure)" << std::endl; }
    return 0;
  }
  if (!strcmp(argv[1], "rt")) {
    int bad = 0;
    std::string e = Data::jsonEscape(s);
    std::string u = Data::jsonUnescape(e);
    if (u != s) { std::cout << "REPRODUCED jsonUnescape(jsonEscape(s)) != s" << std::endl; bad = 1; }
    try {
      Data d(s, Data::VERBATIM);
      Data arr; arr.array.push_back(d);
      Data back = Data::fromJSON(Data::toJSON(arr));
      if (back.array.size() != 1 || back.array.front().atom != s) { std::cout << "REPRODUCED fromJSON(toJSON([s])) != [s]" << std::endl; bad = 1; }
    } catch (...) {
      std::cout << "REPRODUCED fromJSON(toJSON([s])) throws" << std::endl; bad = 1;
    }
    try {
      /* the same string as an object KEY and as a string VALUE below a key */
      Data obj; obj.compound[s] = Data(s, Data::VERBATIM);
      Data back = Data::fromJSON(Data::toJSON(obj));
      if (back.compound.size() != 1 || back.compound.begin()->first != s || back.compound.begin()->second.atom != s) { std::cout << "REPRODUCED fromJSON(toJSON({s: s})) != {s: s}" << std::endl; bad = 1; }
    } catch (...) {
      std::cout << "REPRODUCED fromJSON(toJSON({s: s})) throws" << std::endl; bad = 1;
    }
    if (!bad) std::cout << "HELD" << std::endl;
    return bad;
  }
  return 2;
}
