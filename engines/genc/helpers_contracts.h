/* Contracts for the seven bit_* helpers the C transpiler emits (ChartToC.cpp, writeHelpers): proved for ALL
 * arguments - any array contents, any count i <= HB - with loop contracts (no unwinding).  HB is the size of the
 * array objects (the sizing macro USCXML_MAX_NR_*_BYTES of a document); the proof is repeated for HB in {1,2,4,8}.
 * g_k is an arbitrary ghost index: "for every byte" is stated for g_k. */
#include <stddef.h>
#ifndef HB
#define HB 4
#endif
size_t g_k;

static void bit_or(unsigned char *dest, const unsigned char *mask, size_t i)
__CPROVER_requires(__CPROVER_is_fresh(dest, HB) && __CPROVER_is_fresh(mask, HB) && i <= HB && g_k < HB)
__CPROVER_assigns(__CPROVER_object_upto(dest, HB))
__CPROVER_ensures(g_k < __CPROVER_old(i) ==> dest[g_k] == (__CPROVER_old(dest[g_k]) | mask[g_k]))
__CPROVER_ensures(g_k >= __CPROVER_old(i) ==> dest[g_k] == __CPROVER_old(dest[g_k]))
;
static void bit_and(unsigned char *dest, const unsigned char *mask, size_t i)
__CPROVER_requires(__CPROVER_is_fresh(dest, HB) && __CPROVER_is_fresh(mask, HB) && i <= HB && g_k < HB)
__CPROVER_assigns(__CPROVER_object_upto(dest, HB))
__CPROVER_ensures(g_k < __CPROVER_old(i) ==> dest[g_k] == (__CPROVER_old(dest[g_k]) & mask[g_k]))
__CPROVER_ensures(g_k >= __CPROVER_old(i) ==> dest[g_k] == __CPROVER_old(dest[g_k]))
;
static void bit_and_not(unsigned char *dest, const unsigned char *mask, size_t i)
__CPROVER_requires(__CPROVER_is_fresh(dest, HB) && __CPROVER_is_fresh(mask, HB) && i <= HB && g_k < HB)
__CPROVER_assigns(__CPROVER_object_upto(dest, HB))
__CPROVER_ensures(g_k < __CPROVER_old(i) ==> dest[g_k] == (__CPROVER_old(dest[g_k]) & (mask[g_k] ^ 0xFF)))
__CPROVER_ensures(g_k >= __CPROVER_old(i) ==> dest[g_k] == __CPROVER_old(dest[g_k]))
;
static void bit_copy(unsigned char *dest, const unsigned char *source, size_t i)
__CPROVER_requires(__CPROVER_is_fresh(dest, HB) && __CPROVER_is_fresh(source, HB) && i <= HB && g_k < HB)
__CPROVER_assigns(__CPROVER_object_upto(dest, HB))
__CPROVER_ensures(g_k < __CPROVER_old(i) ==> dest[g_k] == source[g_k])
__CPROVER_ensures(g_k >= __CPROVER_old(i) ==> dest[g_k] == __CPROVER_old(dest[g_k]))
;
static void bit_clear_all(unsigned char *a, size_t i)
__CPROVER_requires(__CPROVER_is_fresh(a, HB) && i <= HB && g_k < HB)
__CPROVER_assigns(__CPROVER_object_upto(a, HB))
__CPROVER_ensures(g_k < __CPROVER_old(i) ==> a[g_k] == 0)
__CPROVER_ensures(g_k >= __CPROVER_old(i) ==> a[g_k] == __CPROVER_old(a[g_k]))
;
static int bit_has_and(const unsigned char *a, const unsigned char *b, size_t i)
__CPROVER_requires(__CPROVER_is_fresh(a, HB) && __CPROVER_is_fresh(b, HB) && i <= HB && g_k < HB)
__CPROVER_assigns()
__CPROVER_ensures(__CPROVER_return_value == 0 || __CPROVER_return_value == 1)
__CPROVER_ensures((__CPROVER_return_value == 0 && g_k < i) ==> (a[g_k] & b[g_k]) == 0)
__CPROVER_ensures(__CPROVER_return_value == 1 ==> __CPROVER_exists { size_t k; (0 <= k && k < HB) && (k < i && (a[k] & b[k]) != 0) })
;
static int bit_has_any(unsigned const char *a, size_t i)
__CPROVER_requires(__CPROVER_is_fresh(a, HB) && i <= HB && g_k < HB)
__CPROVER_assigns()
__CPROVER_ensures(__CPROVER_return_value == 0 || __CPROVER_return_value == 1)
__CPROVER_ensures((__CPROVER_return_value == 0 && g_k < i) ==> a[g_k] == 0)
__CPROVER_ensures(__CPROVER_return_value == 1 ==> __CPROVER_exists { size_t k; (0 <= k && k < HB) && (k < i && a[k] != 0) })
;
