"""Extract the operator arms of PromelaDataModel::evaluateExpr (route R3) to C functions
   int arm_<TOKEN>(int nops, int node_type, int v1, int v2)
The k-th operand value - what dataToInt(evaluateExpr(<k-th operand>)) returned - becomes the
parameter v<k>; each use goes through OPND(k), which asserts that the operand list HAS a k-th
element (the C++ code dereferences and advances a std::list iterator without looking at end()).
Also reads the grammar (promela.ypp) for the arities with which each token is produced."""
import os
import re
import sys
sys.path.insert(0, os.path.dirname(os.path.abspath(__file__)))
import rules

SRC = 'src/uscxml/plugins/datamodel/promela/PromelaDataModel.cpp'
YPP = 'src/uscxml/plugins/datamodel/promela/parser/promela.ypp'
SIG = r'\bData\s+PromelaDataModel::evaluateExpr\s*\(\s*void\s*\*\s*ast\s*\)\s*'

# the operator set named by the property (C17 quantifier), keyed by grammar token
OPS = ['PML_PLUS', 'PML_MINUS', 'PML_TIMES', 'PML_DIVIDE', 'PML_MODULO', 'PML_LSHIFT', 'PML_RSHIFT',
       'PML_LT', 'PML_LE', 'PML_GT', 'PML_GE', 'PML_EQ', 'PML_NE', 'PML_AND', 'PML_OR', 'PML_NEG']


def grammar_arities(repo):
    text = rules.strip_comments(open(os.path.join(repo, YPP), errors='replace').read())
    ar = {}
    for m in re.finditer(r'ctx->node\(\s*(PML_\w+)\s*,\s*(\d+)\s*[,)]', text):
        ar.setdefault(m.group(1), set()).add(int(m.group(2)))
    if not ar:
        raise rules.ExtractionError('no ctx->node(PML_*, N, ...) productions found in ' + YPP)
    return {k: sorted(v) for k, v in ar.items()}


def split_arms(body):
    """body of evaluateExpr -> list of (labels, arm_text, line_offset)."""
    m = re.search(r'\bswitch\s*\(\s*node->type\s*\)\s*\{', body)
    if not m:
        raise rules.ExtractionError('switch (node->type) not found in evaluateExpr')
    ob = m.end() - 1
    cb = rules.match_close(body, ob, '{', '}')
    sw = body[ob + 1:cb]
    base_line = body.count('\n', 0, ob + 1)
    # positions of case labels at depth 0 of the switch body
    labels = []
    depth = 0
    i = 0
    n = len(sw)
    while i < n:
        c = sw[i]
        if c in '"\'':
            j = i + 1
            while sw[j] != c:
                if sw[j] == '\\':
                    j += 1
                j += 1
            i = j + 1
            continue
        if c in '{(':
            depth += 1
        elif c in '})':
            depth -= 1
        elif depth == 0:
            mm = re.compile(r'\b(case\s+(\w+)|default)\s*:').match(sw, i)
            if mm and (i == 0 or not (sw[i - 1].isalnum() or sw[i - 1] == '_')):
                labels.append((mm.start(), mm.end(), mm.group(2) or 'default'))
                i = mm.end()
                continue
        i += 1
    arms = []
    k = 0
    while k < len(labels):
        names = [labels[k][2]]
        end_lab = labels[k][1]
        while k + 1 < len(labels) and sw[end_lab:labels[k + 1][0]].strip() == '':
            k += 1
            names.append(labels[k][2])
            end_lab = labels[k][1]
        stop = labels[k + 1][0] if k + 1 < len(labels) else n
        arms.append((names, sw[end_lab:stop], base_line + sw.count('\n', 0, end_lab)))
        k += 1
    return arms


def drop_block_if(text, cond_rx, dropped, why):
    """remove 'if (<cond matching cond_rx>) { ... }' (or single statement) from text"""
    while True:
        m = None
        for mm in re.finditer(r'\bif\s*\(', text):
            cl = rules.match_close(text, mm.end() - 1)
            if re.search(cond_rx, text[mm.end():cl]):
                m = (mm.start(), cl)
                break
        if not m:
            return text
        start, cl = m
        j = cl + 1
        while text[j] in ' \t\n':
            j += 1
        if text[j] == '{':
            end = rules.match_close(text, j, '{', '}') + 1
        else:
            end = text.index(';', j) + 1
        dropped.append({'what': why, 'text': ' '.join(text[start:end].split())})
        text = text[:start] + '\n' * text[start:end].count('\n') + text[end:]


def parse_stmts(text):
    """Mini statement parser for an arm body: returns a list of
       ('simple', text) | ('block', [stmts]) | ('if', cond, [then], [else] or None)."""
    pos = [0]
    n = len(text)

    def skip_ws():
        while pos[0] < n and text[pos[0]] in ' \t\n\r':
            pos[0] += 1

    def stmt():
        skip_ws()
        if pos[0] >= n:
            return None
        if text[pos[0]] == '{':
            cl = rules.match_close(text, pos[0], '{', '}')
            inner = parse_stmts(text[pos[0] + 1:cl])
            pos[0] = cl + 1
            return ('block', inner)
        m = re.compile(r'if\s*\(').match(text, pos[0])
        if m:
            cl = rules.match_close(text, m.end() - 1)
            cond = text[m.end():cl]
            pos[0] = cl + 1
            then = stmt()
            save = pos[0]
            skip_ws()
            m2 = re.compile(r'else\b').match(text, pos[0])
            els = None
            if m2:
                pos[0] = m2.end()
                els = stmt()
            else:
                pos[0] = save
            return ('if', cond, [then], [els] if els else None)
        # simple statement up to ';' at depth 0
        depth = 0
        i = pos[0]
        while i < n:
            c = text[i]
            if c in '"\'':
                j = i + 1
                while text[j] != c:
                    if text[j] == '\\':
                        j += 1
                    j += 1
                i = j + 1
                continue
            if c in '([':
                depth += 1
            elif c in ')]':
                depth -= 1
            elif c == ';' and depth == 0:
                st = text[pos[0]:i + 1]
                pos[0] = i + 1
                return ('simple', ' '.join(st.split()))
            elif c in '{}' and depth == 0:
                raise rules.ExtractionError('unexpected brace in statement: ' + text[pos[0]:i + 1])
            i += 1
        rest = text[pos[0]:].strip()
        pos[0] = n
        if rest:
            raise rules.ExtractionError('unterminated statement: ' + rest[:80])
        return None

    out = []
    while True:
        st = stmt()
        if st is None:
            break
        out.append(st)
    return out


def rewrite_arm(text, dropped):
    """Rewrites one arm; operand numbering follows the control flow (a branch that returns does not
    shift the numbering of the code after it).  Returns (ctext, max operands consumed)."""
    opnames = {}
    datavars = set()
    maxc = [0]
    unordered = [False]
    text = drop_block_if(text, r'PML_STRING|Data::VERBATIM', dropped,
                         'string-comparison branch (operands are assumed integer-valued)')

    def expr(s, count):
        c0 = count
        while True:
            m = re.search(r'dataTo(Int|Bool)\(\s*evaluateExpr\(\s*\*\s*opIter(\+\+)?\s*\)\s*\)', s)
            if not m:
                break
            count += 1
            if count > 2:
                raise rules.ExtractionError('arm consumes more than 2 operands on one path')
            rep = 'OPND(%d)' % count if m.group(1) == 'Int' else 'pml_dataToBool(OPND(%d))' % count
            s = s[:m.start()] + rep + s[m.end():]
        for v in datavars:
            s = re.sub(r'dataToInt\(\s*%s\s*\)' % v, v, s)
            s = re.sub(r'dataToBool\(\s*%s\s*\)' % v, 'pml_dataToBool(%s)' % v, s)
        # peeking at the next operand node without consuming it
        s = re.sub(r'strTo<int>\(\s*\(\s*\*\s*opIter\s*\)->value\s*\)', 'OPLIT(%d)' % (count + 1), s)
        s = re.sub(r'\(\s*\*\s*opIter\s*\)->type\b', 'OPKIND(%d)' % (count + 1), s)
        for nm, idx in opnames.items():
            s = re.sub(r'\b%s->type\b' % nm, 'OPKIND(%d)' % idx, s)
        s = re.sub(r'\bnode->type\b', 'node_type', s)
        s = re.sub(r'\bnode->operands\.size\(\)', '((size_t)nops)', s)
        maxc[0] = max(maxc[0], count)
        if count - c0 >= 2:
            unordered[0] = True   # two operand fetches in ONE expression: their order is chosen by the compiler
        return s, count

    def walk(stmts, count, ind):
        out = []
        term = False
        for st in stmts:
            if st[0] == 'block':
                c, count, t = walk(st[1], count, ind + '  ')
                out.append(ind + '{\n' + c + ind + '}\n')
                term = term or t
            elif st[0] == 'if':
                cond, count = expr(st[1], count)
                c1, n1, t1 = walk(st[2], count, ind + '  ')
                if st[3]:
                    c2, n2, t2 = walk(st[3], count, ind + '  ')
                else:
                    c2, n2, t2 = None, count, False
                out.append(ind + 'if (%s)\n%s' % (cond, c1) + ((ind + 'else\n' + c2) if c2 is not None else ''))
                if t1 and t2:
                    term = True
                elif t1:
                    count = n2
                elif t2:
                    count = n1
                else:
                    if n1 != n2:
                        raise rules.ExtractionError('branches consume different numbers of operands and both continue')
                    count = n1
            else:
                s = st[1]
                m = re.match(r'^PromelaParserNode\s*\*\s*(\w+)\s*=\s*\*\s*opIter\+\+\s*;$', s)
                if m:
                    count += 1
                    if count > 2:
                        raise rules.ExtractionError('arm consumes more than 2 operands on one path')
                    maxc[0] = max(maxc[0], count)
                    opnames[m.group(1)] = count
                    out.append(ind + '(void)OPND(%d);\n' % count)
                    continue
                m = re.match(r'^Data\s+(\w+)\s*=\s*evaluateExpr\(\s*(\w+)\s*\)\s*;$', s)
                if m and m.group(2) in opnames:
                    datavars.add(m.group(1))
                    out.append(ind + 'int %s = v%d;\n' % (m.group(1), opnames[m.group(2)]))
                    continue
                s, count = expr(s, count)
                m = re.search(r'\bERROR_EXECUTION_THROW\s*\(', s)
                if m:
                    cl = rules.match_close(s, m.end() - 1)
                    if s[cl + 1:].strip() != ';' or s[:m.start()].strip():
                        raise rules.ExtractionError('ERROR_EXECUTION_THROW not a statement: ' + s)
                    s = 'return verif_throw();'
                    term = True
                m = re.match(r'^return\s+Data\s*\((.*)\)\s*;$', s)
                if m:
                    s = 'return (%s);' % m.group(1)
                if s.startswith('return'):
                    term = True
                if s == 'break;':
                    s = 'return verif_fallthrough();'
                    term = True
                out.append(ind + s + '\n')
        return ''.join(out), count, term

    ctext, _, _ = walk(parse_stmts(text), 0, '  ')
    for rx in (r'\bopIter\b', r'\bevaluateExpr\b', r'\bData\b', r'->', r'\bdataTo\w+', r'\bnode\b', r'\bgetVariable\b', r'\bsetVariable\b'):
        mm = re.search(rx, rules.strip_literals(ctext))
        if mm:
            raise rules.ExtractionError('arm not fully rewritten, residue /%s/ in: %s' % (rx, ' '.join(ctext.split())[:200]))
    rules.check_residue(ctext, [], 'evaluateExpr arm')
    return ctext, maxc[0], unordered[0]


SIG_D2B = r'\bbool\s+PromelaDataModel::dataToBool\s*\(\s*const\s+Data\s*&\s*(\w+)\s*\)\s*'


def extract_dataToBool(repo):
    """dataToBool restricted to integer-valued operands: the tests on the string representation are resolved
    by the stated assumption (atom is the decimal text of an int: non-empty, not VERBATIM, not 'true'/'false')
    and dataToInt(data) becomes the operand value v."""
    path = os.path.join(repo, SRC)
    first, last, sig, body = rules.find_function(path, SIG_D2B)
    d = re.search(SIG_D2B, sig).group(1)
    subs = [(r'%s\.atom\.size\(\)\s*==\s*0' % d, '0 /* atom non-empty */'),
            (r'%s\.type\s*==\s*Data::VERBATIM' % d, '0 /* not VERBATIM */'),
            (r'%s\.atom\.compare\("true"\)\s*==\s*0' % d, '0 /* atom != "true" */'),
            (r'%s\.atom\.compare\("false"\)\s*==\s*0' % d, '0 /* atom != "false" */'),
            (r'dataToInt\(\s*%s\s*\)' % d, 'v')]
    out = body
    for rx, rep in subs:
        out = re.sub(rx, rep, out)
    ctext = '/* %s:%d-%d dataToBool, integer-valued operand */\nstatic bool pml_dataToBool(int v) {%s}\n' % (SRC, first, last, out)
    chk = re.sub(r'/\*.*?\*/', '', ctext)
    for rx in (r'\b%s\b' % d, r'\bData\b', r'->', r'\batom\b'):
        if re.search(rx, rules.strip_literals(chk)):
            raise rules.ExtractionError('dataToBool not fully rewritten, residue /%s/' % rx)
    rules.check_residue(chk, [], 'dataToBool')
    return ctext, (first, last)


SIG_GET = r'\bData\s+PromelaDataModel::getVariable\s*\(\s*void\s*\*\s*ast\s*\)\s*'
SIG_SET = r'\bvoid\s+PromelaDataModel::setVariable\s*\(\s*void\s*\*\s*ast\s*,\s*const\s+Data\s*&\s*value\s*\)\s*'
SIZE_RX = r'strTo\s*<\s*int\s*>\s*\(\s*_variables\s*\[\s*name->value\s*\]\s*\[\s*"size"\s*\]\s*\.atom\s*\)'


def extract_index_guard(repo, sig, fname):
    """The PML_VAR_ARRAY arm of getVariable / setVariable, sliced to the integer guards on the array index:
         int index = dataToInt(evaluateExpr(expr));      -> the parameter `index` (any int)
         if (<condition over index and the declared size>) ERROR_EXECUTION_THROW(..)   -> kept, size = strTo<int>(..["size"].atom)
         <statement that subscripts ...[index]>          -> USE_INDEX(index), which asserts 0 <= index < size
       Dropped (listed): the guards that do not mention the index (undeclared variable, not an array, the `config`
       pseudo-array), and the Data map accesses themselves.  Everything between the definition of `index` and its
       use as a subscript must be one of these shapes, otherwise ExtractionError."""
    path = os.path.join(repo, SRC)
    first, last, sigtext, body = rules.find_function(path, sig)
    m = re.search(r'\bcase\s+PML_VAR_ARRAY\s*:\s*\{', body)
    if not m:
        raise rules.ExtractionError('%s: case PML_VAR_ARRAY arm not found' % fname)
    ob = m.end() - 1
    cb = rules.match_close(body, ob, '{', '}')
    line = first + body.count('\n', 0, ob)
    stmts = parse_stmts(body[ob + 1:cb])
    out, dropped = [], []
    have_def = have_use = False

    def is_throw_block(st):
        if st[0] == 'block':
            return len(st[1]) == 1 and is_throw_block(st[1][0])
        return st[0] == 'simple' and st[1].startswith('ERROR_EXECUTION_THROW')

    for st in stmts:
        if st[0] == 'simple':
            t = st[1]
            if re.match(r'^int\s+index\s*=\s*dataToInt\s*\(\s*evaluateExpr\s*\(\s*expr\s*\)\s*\)\s*;$', t):
                if have_def:
                    raise rules.ExtractionError('%s: index defined twice' % fname)
                have_def = True
                continue
            if re.search(r'\[\s*index\s*\]', t):
                if not have_def:
                    raise rules.ExtractionError('%s: index used before its definition' % fname)
                have_use = True
                out.append('  USE_INDEX(index, size);')
                out.append('  return 0;')
                break
            if re.search(r'\bindex\b', t):
                raise rules.ExtractionError('%s: statement on index outside the rules: %s' % (fname, t))
            dropped.append({'what': 'statement not on the index', 'text': t})
            continue
        if st[0] == 'if':
            cond, then, els = st[1], st[2], st[3]
            if not re.search(r'\bindex\b', cond):
                dropped.append({'what': 'guard that does not mention the index', 'text': ' '.join(cond.split())})
                continue
            if not have_def:
                raise rules.ExtractionError('%s: guard on index before its definition' % fname)
            if els is not None or not is_throw_block(then[0]):
                raise rules.ExtractionError('%s: guard on index that is not of the form if (..) ERROR_EXECUTION_THROW(..)' % fname)
            c = re.sub(SIZE_RX, 'size', cond)
            chk = rules.strip_literals(c)
            if not re.match(r'^[\s\w<>=!&|()+\-]*$', chk) or re.search(r'\b(?!index\b|size\b|\d+\b|INT_MAX\b|INT_MIN\b)[A-Za-z_]\w*', chk):
                raise rules.ExtractionError('%s: guard condition outside the rules: %s' % (fname, ' '.join(cond.split())))
            out.append('  if (%s) { verif_throw(); return 0; }' % ' '.join(c.split()))
            continue
        raise rules.ExtractionError('%s: statement shape outside the rules in the PML_VAR_ARRAY arm' % fname)
    if not (have_def and have_use):
        raise rules.ExtractionError('%s: PML_VAR_ARRAY arm without `int index = dataToInt(evaluateExpr(expr))` / a subscript [index]' % fname)
    ctext = '/* %s:%d  %s, case PML_VAR_ARRAY, sliced to the guards on the index */\nstatic int idx_%s(int index, int size) {\n%s\n}\n' % (SRC, line, fname, fname, '\n'.join(out))
    return ctext, line, dropped


DATA_H = 'src/uscxml/messages/Data.h'
SIG_SUB = r'\bData\s*&\s*operator\s*\[\s*\]\s*\(\s*const\s+size_t\s+index\s*\)\s*'


def extract_data_subscript(repo):
    """Data::operator[](const size_t index) - the element access behind every Promela array read and write.
    The std::list<Data> is abstracted to its LENGTH (ghost verif_n) and an iterator to its POSITION:
        array.size() -> verif_n      array.push_back(..) -> verif_n++      std::list<Data>::iterator it = array.begin() -> size_t it = 0
        it++ stays                   return *it -> DEREF(it)  (asserts it < verif_n: not end(), and it == index)
    The two loops get loop contracts (inserted by this script after the loop headers, which must have the shapes below,
    else ExtractionError): they are checked for every list length and every index, without unwinding."""
    path = os.path.join(repo, DATA_H)
    first, last, sig, body = rules.find_function(path, SIG_SUB)
    t = body
    t, n1 = re.subn(r'\barray\s*\.\s*size\s*\(\s*\)', 'verif_n', t)
    t, n2 = re.subn(r'\barray\s*\.\s*push_back\s*\((?:[^()]|\([^()]*\))*\)\s*;', 'verif_n++;', t)
    t, n3 = re.subn(r'\bstd::list\s*<\s*Data\s*>\s*::\s*iterator\s+(\w+)\s*=\s*array\s*\.\s*begin\s*\(\s*\)\s*;', r'size_t \1 = 0;', t)
    t, n4 = re.subn(r'\breturn\s*\*\s*(\w+)\s*;', r'DEREF(\1, index); return;', t)
    # further std::list operations a rewrite of this function plausibly uses
    t, n5 = re.subn(r'\breturn\s+array\s*\.\s*back\s*\(\s*\)\s*;', 'DEREF(verif_n - 1, index); return;', t)
    t, n6 = re.subn(r'\breturn\s+array\s*\.\s*front\s*\(\s*\)\s*;', 'DEREF((size_t)0, index); return;', t)
    while True:
        mm = re.search(r'\barray\s*\.\s*(insert|resize)\s*\(', t)
        if not mm:
            break
        cl = rules.match_close(t, mm.end() - 1)
        args = rules._split_args(t[mm.end():cl])
        semi = t.index(';', cl)
        if t[cl + 1:semi].strip():
            raise rules.ExtractionError('Data::operator[](size_t): result of array.%s used' % mm.group(1))
        if mm.group(1) == 'insert':
            if len(args) != 3 or not re.match(r'^array\s*\.\s*end\s*\(\s*\)$', args[0].strip()):
                raise rules.ExtractionError('Data::operator[](size_t): array.insert(...) outside the rules (only insert(array.end(), count, value))')
            rep = 'verif_n += (%s);' % args[1].strip()
        else:
            if len(args) not in (1, 2):
                raise rules.ExtractionError('Data::operator[](size_t): array.resize(...) outside the rules')
            rep = 'verif_n = (%s);' % args[0].strip()
        t = t[:mm.start()] + rep + t[semi + 1:]
    t = re.sub(r'\bstd::advance\s*\(\s*(\w+)\s*,\s*([^;]*?)\)\s*;', r'\1 += (\2);', t)
    if n3 > 1 or (n4 + n5 + n6) < 1:
        raise rules.ExtractionError('Data::operator[](size_t): no element is returned through an iterator / back() / front(), or several iterators')
    m = re.search(r'size_t (\w+) = 0;', t)
    it = m.group(1) if m else '__none__'
    # loop contracts
    def while_contract(mm):
        cond = mm.group(1)
        if not re.match(r'^\s*verif_n\s*(<|<=)\s*index\s*$', cond):
            raise rules.ExtractionError('Data::operator[](size_t): padding loop condition outside the rules: ' + cond)
        return ('while (%s)\n  __CPROVER_assigns(verif_n)\n  __CPROVER_loop_invariant(verif_n >= __CPROVER_loop_entry(verif_n))\n'
                '  __CPROVER_decreases(index + 1 - verif_n)\n' % cond)
    t, nw = re.subn(r'\bwhile\s*\(([^()]*)\)', while_contract, t)

    def for_contract(mm):
        hdr = ' '.join(mm.group(1).split())
        m2 = re.match(r'^size_t (\w+) = 0; \1 < index; (?:\1\+\+|\+\+\1), (?:%s\+\+|\+\+%s)$' % (it, it), hdr) or \
            re.match(r'^size_t (\w+) = 0; \1 < index; (?:%s\+\+|\+\+%s), (?:\1\+\+|\+\+\1)$' % (it, it), hdr)
        if not m2:
            raise rules.ExtractionError('Data::operator[](size_t): advance loop header outside the rules: ' + hdr)
        v = m2.group(1)
        return ('for (%s)\n  __CPROVER_assigns(%s, %s)\n  __CPROVER_loop_invariant(%s <= index && %s == %s)\n  __CPROVER_decreases(index - %s)\n'
                % (hdr, v, it, v, it, v, v))
    t, nf = re.subn(r'\bfor\s*\(([^()]*)\)', for_contract, t)
    chk = rules.strip_literals(re.sub(r'/\*.*?\*/', '', t))
    for rx in (r'\barray\b', r'\bstd\b', r'\bData\b', r'->', r'::', r'\*\s*\w+\s*;'):
        if re.search(rx, chk):
            raise rules.ExtractionError('Data::operator[](size_t) not fully rewritten, residue /%s/' % rx)
    ctext = ('/* %s:%d-%d  Data::operator[](const size_t index); std::list abstracted to its length, iterator to its position */\n'
             'static void data_subscript(const size_t index)\n{%s}\n' % (DATA_H, first, last, t))
    return ctext, (first, last), {'loops_with_contract': nw + nf, 'push_back': n2}


LEN_SIZE_RX = r'strTo\s*<\s*size_t\s*>\s*\(\s*_variables\s*\[\s*node->value\s*\]\s*(?:\.compound)?\s*\[\s*"size"\s*\]\s*\.atom\s*\)'
LEN_RX = r'\bvalue\s*\.\s*array\s*\.\s*size\s*\(\s*\)'


def extract_array_len_guard(repo):
    """setVariable, case PML_NAME (a whole array is assigned to a declared array, e.g. by a <data> initialiser),
    sliced to the guard on the LENGTH of the assigned array:
         if (<condition over strTo<size_t>(..["size"].atom) and value.array.size()>) ERROR_EXECUTION_THROW(..)
    -> size / len parameters (any size_t).  Must be found exactly once, inside the `if (..hasKey("size"))` block.
    Dropped (listed): every other statement of the arm (Data map accesses, the guards that do not mention the length)."""
    path = os.path.join(repo, SRC)
    first, last, sigtext, body = rules.find_function(path, SIG_SET)
    m = re.search(r'\bcase\s+PML_NAME\s*:\s*\{', body)
    if not m:
        raise rules.ExtractionError('setVariable: case PML_NAME arm not found')
    ob = m.end() - 1
    cb = rules.match_close(body, ob, '{', '}')
    line = first + body.count('\n', 0, ob)
    found, dropped = [], []

    def is_throw(st):
        if st[0] == 'block':
            return len(st[1]) == 1 and is_throw(st[1][0])
        return st[0] == 'simple' and st[1].startswith('ERROR_EXECUTION_THROW')

    def walk(stmts, under_size):
        for st in stmts:
            if st[0] == 'block':
                walk(st[1], under_size)
            elif st[0] == 'if':
                cond = st[1]
                if re.search(LEN_RX, cond):
                    if not under_size:
                        raise rules.ExtractionError('setVariable/PML_NAME: length guard outside the hasKey("size") block')
                    if st[3] is not None or not is_throw(st[2][0]):
                        raise rules.ExtractionError('setVariable/PML_NAME: length guard not of the form if (..) ERROR_EXECUTION_THROW(..)')
                    c = re.sub(LEN_RX, 'len', re.sub(LEN_SIZE_RX, 'size', cond))
                    chk = rules.strip_literals(c)
                    if not re.match(r'^[\s\w<>=!&|()+\-]*$', chk) or re.search(r'\b(?!len\b|size\b|\d+\b)[A-Za-z_]\w*', chk):
                        raise rules.ExtractionError('setVariable/PML_NAME: length guard outside the rules: %s' % ' '.join(cond.split()))
                    found.append(' '.join(c.split()))
                    continue
                dropped.append({'what': 'guard that does not mention the length of the assigned array', 'text': ' '.join(cond.split())})
                if not is_throw(st[2][0]):
                    walk(st[2], under_size or bool(re.search(r'hasKey\s*\(\s*"size"\s*\)', cond)))
                if st[3]:
                    walk(st[3], under_size)
            else:
                if re.search(LEN_RX, st[1]):
                    raise rules.ExtractionError('setVariable/PML_NAME: statement on the array length outside the rules: %s' % st[1])
                dropped.append({'what': 'statement not on the array length', 'text': st[1]})
    walk(parse_stmts(body[ob + 1:cb]), False)
    if len(found) != 1:
        raise rules.ExtractionError('setVariable/PML_NAME: expected exactly one guard on value.array.size(), found %d' % len(found))
    ctext = ('/* %s:%d  setVariable, case PML_NAME, sliced to the guard on the length of an assigned array */\n'
             'static int arrlen_setVariable(size_t size, size_t len) {\n  if (%s) { verif_throw(); return 0; }\n  verif_used = 1;\n  return 0;\n}\n' % (SRC, line, found[0]))
    return ctext, line, dropped


SIG_DECL = r'\bvoid\s+PromelaDataModel::evaluateDecl\s*\(\s*void\s*\*\s*ast\s*\)\s*'


def extract_decl_array(repo):
    """evaluateDecl, branch `(*nameIter)->type == PML_VAR_ARRAY` (declaration `int arr[N]`), with the std::list<Data> behind
    variable.compound["value"].array abstracted to its length (ghost verif_n, as for Data::operator[]):
         int size = dataToInt(evaluateExpr(*opIterAsgn++));   -> the parameter `size` (any int)
         variable.compound["size"] = Data(size);              -> verif_declared = size;
         for (int i = 0; i < size; i++) { variable.compound["value"].array.push_back(Data(0, Data::INTERPRETED)); }
                                                              -> loop kept, body PUSH(0) (verif_n++ and the pushed value asserted 0),
                                                                 loop contract inserted
    `Data variable;` must be declared inside the enclosing loop (the list starts empty: derived precondition verif_n == 0).
    Dropped (listed): operand-list iterator statements, the assert on the iterator, the store into _variables."""
    path = os.path.join(repo, SRC)
    first, last, sigtext, body = rules.find_function(path, SIG_DECL)
    m = re.search(r'else\s+if\s*\(\s*\(\s*\*\s*nameIter\s*\)\s*->\s*type\s*==\s*PML_VAR_ARRAY\s*\)\s*\{', body)
    if not m:
        raise rules.ExtractionError('evaluateDecl: PML_VAR_ARRAY branch not found')
    ob = m.end() - 1
    cb = rules.match_close(body, ob, '{', '}')
    line = first + body.count('\n', 0, ob)
    if not re.search(r'\bfor\s*\([^{]*nameIter[^{]*\)\s*\{\s*Data\s+variable\s*;', body[:ob]):
        raise rules.ExtractionError('evaluateDecl: `Data variable;` is not declared at the top of the loop over the declared names (list may not start empty)')
    t = re.sub(r'//[^\n]*', '', body[ob + 1:cb])
    out, dropped = [], []
    have = {'size': 0, 'decl': 0, 'loop': 0}
    pos = 0
    while True:
        mm = re.compile(r'\s*').match(t, pos)
        pos = mm.end()
        if pos >= len(t):
            break
        mf = re.compile(r'for\s*\(').match(t, pos)
        if mf:
            cl = rules.match_close(t, mf.end() - 1)
            hdr = ' '.join(t[mf.end():cl].split())
            mb = re.compile(r'\s*\{').match(t, cl + 1)
            if not mb:
                raise rules.ExtractionError('evaluateDecl/PML_VAR_ARRAY: for loop without a block')
            bcl = rules.match_close(t, mb.end() - 1, '{', '}')
            inner = ' '.join(t[mb.end():bcl].split())
            mh = re.match(r'^int (\w+) = (\d+); \1 (<=?) (size(?: [+-] \d+)?); (?:\1\+\+|\+\+\1)$', hdr)
            if not mh:
                raise rules.ExtractionError('evaluateDecl/PML_VAR_ARRAY: loop header outside the rules: ' + hdr)
            v = mh.group(1)
            bound = '(%s)%s' % (mh.group(4).replace('size', '(long)size'), ' + 1' if mh.group(3) == '<=' else '')
            mp = re.match(r'^variable\.compound\["value"\]\.array\.push_back\(Data\(([^,()]+), Data::INTERPRETED\)\);$', inner)
            if not mp:
                raise rules.ExtractionError('evaluateDecl/PML_VAR_ARRAY: loop body outside the rules: ' + inner)
            if not have['size']:
                raise rules.ExtractionError('evaluateDecl/PML_VAR_ARRAY: fill loop before the definition of size')
            # invariant over the abstraction: the list grew by one element per iteration since loop entry; the counter stays within the header's bound
            out.append('  for (%s)\n    __CPROVER_assigns(%s, verif_n)\n'
                       '    __CPROVER_loop_invariant(%s >= __CPROVER_loop_entry(%s) && verif_n >= __CPROVER_loop_entry(verif_n) && verif_n - __CPROVER_loop_entry(verif_n) == (size_t)((long)%s - (long)__CPROVER_loop_entry(%s)))\n'
                       '    __CPROVER_loop_invariant((long)%s <= %s || %s == __CPROVER_loop_entry(%s))\n'
                       '    __CPROVER_decreases(%s + 1 - (long)%s)\n  { PUSH(%s); }' % (hdr, v, v, v, v, v, v, bound, v, v, bound, v, mp.group(1).strip()))
            have['loop'] += 1
            pos = bcl + 1
            continue
        se = t.find(';', pos)
        if se < 0:
            raise rules.ExtractionError('evaluateDecl/PML_VAR_ARRAY: unterminated statement')
        st = ' '.join(t[pos:se + 1].split())
        pos = se + 1
        if re.match(r'^int size = dataToInt\(evaluateExpr\(\*opIterAsgn\+\+\)\);$', st):
            have['size'] += 1
            continue
        if re.match(r'^variable\.compound\["size"\] = Data\(size\);$', st):
            out.append('  verif_declared = size;')
            have['decl'] += 1
            continue
        if re.search(r'\bsize\b|\barray\b|push_back', st):
            raise rules.ExtractionError('evaluateDecl/PML_VAR_ARRAY: statement on size / the value list outside the rules: ' + st)
        dropped.append({'what': 'statement not on the size or the value list', 'text': st})
    if have != {'size': 1, 'decl': 1, 'loop': 1}:
        raise rules.ExtractionError('evaluateDecl/PML_VAR_ARRAY: expected one definition of size, one store of the declared size, one fill loop; found %s' % have)
    ctext = ('/* contract: a declared array has exactly `size` elements (none for size <= 0), all 0, and records `size` as its declared size.\n'
             '   derived precondition: `Data variable;` is fresh, so its value list is empty */\n'
             'int verif_declared;\n#define PUSH(x) (__CPROVER_assert((x) == 0, "O_decl: the elements of a declared array are initialised with 0"), verif_n++)\n'
             'static void decl_array(int size)\n  __CPROVER_requires(verif_n == 0)\n  __CPROVER_assigns(verif_n, verif_declared)\n'
             '  __CPROVER_ensures(verif_declared == size)\n  __CPROVER_ensures(size <= 0 ==> verif_n == 0)\n  __CPROVER_ensures(size > 0 ==> verif_n == (size_t)size)\n;\n'
             '/* %s:%d  evaluateDecl, branch PML_VAR_ARRAY; value list abstracted to its length */\nstatic void decl_array(int size)\n{\n%s\n}\n' % (SRC, line, '\n'.join(out)))
    return ctext, line, dropped


SIG_INIT = r'\bvoid\s+PromelaDataModel::init\s*\(\s*const\s+std::string\s*&\s*location\s*,\s*const\s+Data\s*&\s*data\s*,[^)]*\)\s*'


def extract_init_slice(repo):
    """PromelaDataModel::init (a <data> element), sliced to the decision whether the declared variable is assigned:
         { .. evaluateDecl(parser.ast); }          -> dropped (std::string handling of the type attribute); must contain evaluateDecl(
         PromelaParser parser(location);           -> dropped
         Data d = Data::fromJSON(data);            -> dropped; `d.empty()` becomes the free input json_empty
         data.atom.size() -> atom_len, data.type == Data::INTERPRETED -> interpreted,
         data.empty() -> (atom_len == 0 && !other_content)      (Data::empty(): no atom, compound, array, binary, node)
         setVariable(parser.ast, ..);              -> STOREV (counts the assignments)
       Anything else in the if/else chain: ExtractionError."""
    path = os.path.join(repo, SRC)
    first, last, sigtext, body = rules.find_function(path, SIG_INIT)
    stmts = parse_stmts(re.sub(r'//[^\n]*', '', body))
    if not stmts or stmts[0][0] != 'block' or not any(st[0] == 'simple' and re.match(r'^evaluateDecl\s*\(', st[1]) for st in stmts[0][1]):
        raise rules.ExtractionError('init: does not start with the block that declares the variable (evaluateDecl)')
    dropped = [{'what': 'declaration block (std::string handling of the type attribute, PromelaParser, evaluateDecl)', 'text': '%d statements' % len(stmts[0][1])}]
    nstores = [0]

    def cond(c):
        c = ' '.join(c.split())
        c = re.sub(r'\bdata\.atom\.size\(\)', 'atom_len', c)
        c = re.sub(r'\bdata\.type == Data::INTERPRETED\b', 'interpreted', c)
        c = re.sub(r'\bdata\.empty\(\)', '(atom_len == 0 && !other_content)', c)
        c = re.sub(r'\bd\.empty\(\)', 'json_empty', c)
        if not re.match(r'^[\s\w<>=!&|()]*$', c) or re.search(r'\b(?!atom_len\b|interpreted\b|other_content\b|json_empty\b|\d+\b)[A-Za-z_]\w*', c):
            raise rules.ExtractionError('init: condition outside the rules: ' + c)
        return c

    def walk(sts, ind):
        out = []
        for st in sts:
            if st[0] == 'block':
                out.append(ind + '{\n' + walk(st[1], ind + '  ') + ind + '}\n')
            elif st[0] == 'if':
                out.append(ind + 'if (%s)\n' % cond(st[1]) + walk(st[2], ind + '  '))
                if st[3]:
                    out.append(ind + 'else\n' + walk(st[3], ind + '  '))
            else:
                t = st[1]
                if re.match(r'^setVariable\(\s*parser\.ast\s*,.*\);$', t):
                    nstores[0] += 1
                    out.append(ind + 'STOREV;\n')
                elif re.match(r'^Data d = Data::fromJSON\(data\);$', t) or re.match(r'^PromelaParser parser\(location\);$', t):
                    dropped.append({'what': 'statement that does not decide whether the variable is assigned', 'text': t})
                    out.append(ind + ';\n')
                else:
                    raise rules.ExtractionError('init: statement outside the rules: ' + t)
        return ''.join(out)
    ctext = walk(stmts[1:], '  ')
    if not nstores[0]:
        raise rules.ExtractionError('init: no setVariable(parser.ast, ..) found')
    line = first
    return ('/* %s:%d-%d  PromelaDataModel::init, sliced to the decision whether the declared variable is assigned */\n'
            'int verif_storev;\n#define STOREV (verif_storev++)\n'
            'static void init_slice(size_t atom_len, int interpreted, int other_content, int json_empty) {\n%s}\n' % (SRC, first, last, ctext)), (first, last), dropped


def extract(repo):
    path = os.path.join(repo, SRC)
    first, last, sig, body = rules.find_function(path, SIG)
    arms = split_arms(body)
    ar = grammar_arities(repo)
    res = {'arms': [], 'not_extracted': [], 'missing': [], 'arities': {k: ar.get(k, []) for k in OPS}, 'lines': (first, last)}
    seen = set()
    enum = []
    code = []
    for labels, text, off in arms:
        for l in labels:
            if l != 'default' and l not in enum:
                enum.append(l)
        ops = [l for l in labels if l in OPS]
        if not ops:
            res['not_extracted'].append({'labels': labels, 'reason': 'no operator of the property\'s operator set (leaf / variable access / assignment arm)'})
            continue
        dropped = []
        ctext, nconsumed, unord = rewrite_arm(text, dropped)
        for l in ops:
            seen.add(l)
            code.append('/* %s:%d  arm %s */\nstatic int arm_%s(int nops, int node_type, int v1, int v2, int k1, int k2) {\n%s\nreturn verif_fallthrough();\n}\n'
                        % (SRC, first + off, '/'.join(labels), l, ctext))
            res['arms'].append({'token': l, 'line': first + off, 'max_operands_consumed': nconsumed, 'dropped': dropped, 'operand_order_left_to_compiler': unord,
                                'grammar_arities': ar.get(l, [])})
    for l in OPS:
        if l not in seen:
            res['missing'].append(l)
            if l not in enum:
                enum.append(l)
    d2b, d2b_lines = extract_dataToBool(repo)
    res['data_subscript'], res['data_subscript_lines'], res['data_subscript_info'] = extract_data_subscript(repo)
    res['index_guards'] = []
    idx_code = ''
    for sig, fname in ((SIG_GET, 'getVariable'), (SIG_SET, 'setVariable')):
        ctext, line, dropped = extract_index_guard(repo, sig, fname)
        idx_code += ctext
        res['index_guards'].append({'function': fname, 'line': line, 'dropped': dropped})
    res['dataToBool_lines'] = d2b_lines
    al_code, al_line, al_dropped = extract_array_len_guard(repo)
    da_code, da_line, da_dropped = extract_decl_array(repo)
    in_code, in_lines, in_dropped = extract_init_slice(repo)
    res['init_slice'] = {'lines': in_lines, 'dropped': in_dropped}
    res['decl_array'] = {'line': da_line, 'dropped': da_dropped}
    res['array_len_guard'] = {'function': 'setVariable', 'line': al_line, 'dropped': al_dropped}
    res['c'] = ('/* GENERATED on every run by engines/extract/pml_extract.py from %s */\n'
                '#include <stdbool.h>\n#include <stddef.h>\n#include <limits.h>\n'
                'enum { %s };\n'
                'int verif_thrown, verif_fell;\n'
                'static int verif_throw(void) { verif_thrown = 1; return 0; }\n'
                'static int verif_fallthrough(void) { verif_fell = 1; return 0; }\n'
                '#define OPND(k) (verif_opnd(k, nops), (k) == 1 ? v1 : v2)\n'
                '#define OPKIND(k) (verif_opnd(k, nops), (k) == 1 ? k1 : k2)\n'
                '#define OPLIT(k) (verif_opnd(k, nops), verif_lit((k) == 1 ? k1 : k2), (k) == 1 ? v1 : v2)\n'
                'static void verif_lit(int kind) { __CPROVER_assert(kind == PML_CONST, "O_arity: a literal value is read from an operand node that is not a literal (PML_CONST)"); }\n'
                'static void verif_opnd(int k, int nops);\n'
                'static void verif_opnd(int k, int nops) { __CPROVER_assert(k <= nops, "O_arity: the arm takes an operand the parser did not supply (std::list iterator walks off the operand list)"); }\n'
                'int verif_used;\n'
                '#define USE_INDEX(i, n) (verif_used = 1, __CPROVER_assert((i) >= 0 && (i) < (n), "O_index: an array element is accessed only with an index inside the declared array (0 <= index < size)"))\n'
                'size_t verif_n; /* ghost: length of the std::list<Data> behind Data::array */\n'
                'int verif_deref;\n'
                '#define DEREF(it, idx) (verif_deref = 1, __CPROVER_assert((it) < verif_n, "O_elem: the iterator that is dereferenced points at an element of the list (not at end())"), __CPROVER_assert((it) == (idx), "O_elem: the element returned is element number index"))\n'
                '/* contract: derived precondition - both callers pass a checked, non-negative int */\n'
                'static void data_subscript(const size_t index)\n'
                '  __CPROVER_requires(index <= 2147483647)\n'
                '  __CPROVER_assigns(verif_n, verif_deref)\n'
                '  __CPROVER_ensures(verif_n > index && verif_n >= __CPROVER_old(verif_n))\n;\n'
                % (SRC, ', '.join('%s = %d' % (e, 300 + i) for i, e in enumerate(enum)))) + d2b + '\n' + idx_code + '\n' + al_code + '\n' + res['data_subscript'] + '\n' + '\n'.join(code) + '\n' + da_code + '\n' + in_code
    return res


if __name__ == '__main__':
    r = extract(sys.argv[1] if len(sys.argv) > 1 else '/repo')
    print(r['c'])
    print({k: v for k, v in r.items() if k != 'c'})
