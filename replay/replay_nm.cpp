// Native replay for C12: calls the REAL uscxml::nameMatch (String.cpp compiled in) and the REAL text of
// StateMachine::nameMatch (copied verbatim from test/src/test-gen-c.cpp into NM_SCAFFOLD_INC by the
// driver) and compares both with the 3.12.1 spec function.
//   replay_nm <descs-hex> <name-hex>
// prints one line per implementation; exit 1 if any disagrees with the spec on a well-formed input or
// the two implementations disagree; exit 0 otherwise.
#include REAL_STRING_CPP
#include <boost/algorithm/string.hpp>
#include <cstdio>
#include <cstring>
#include <string>
extern "C" {
#include "vstr.h"
#include "nm_spec.h"
}
namespace scaffold {
using boost::iequals;
#include NM_SCAFFOLD_INC
}
static std::string unhex(const char *h) {
  std::string s; size_t n = strlen(h) / 2;
  for (size_t i = 0; i < n; i++) { unsigned v; sscanf(h + 2 * i, "%2x", &v); s += (char)v; }
  return s;
}
static vstr tov(const std::string &s) { vstr v = vstr_empty(); for (char c : s) vstr_push(&v, c); return v; }
int main(int argc, char **argv) {
  if (argc < 3) return 2;
  std::string d = unhex(argv[1]), n = unhex(argv[2]);
  if (d.size() > VSTR_CAP || n.size() > VSTR_CAP) { fprintf(stderr, "input longer than VSTR_CAP\n"); return 2; }
  vstr vd = tov(d), vn = tov(n);
  int wf = spec_wf_descs(&vd) && spec_wf_name(&vn);
  int s = nm_spec(&vd, &vn);
  bool core = uscxml::nameMatch(d, n);
  bool scaf = scaffold::nameMatch(d, n);
  printf("descs=\"%s\" name=\"%s\" well-formed=%d spec=%d uscxml::nameMatch=%d scaffold::nameMatch=%d\n", d.c_str(), n.c_str(), wf, s, (int)core, (int)scaf);
  int bad = 0;
  if (wf && (int)core != s) { printf("REPRODUCED uscxml::nameMatch disagrees with 3.12.1\n"); bad = 1; }
  if (wf && (int)scaf != s) { printf("REPRODUCED StateMachine::nameMatch (test-gen-c.cpp) disagrees with 3.12.1\n"); bad = 1; }
  if (core != scaf) { printf("REPRODUCED the two matchers disagree\n"); bad = 1; }
  return bad;
}
