/* Spec function for event-descriptor matching, written from SCXML Recommendation 3.12.1
 * ("Event Descriptors"), NOT from the code:
 *   - the event attribute is a white-space separated list of descriptors;
 *   - a descriptor matches an event name if its tokens are an exact match of, or a prefix of,
 *     the '.'-separated tokens of the name; token matching is case sensitive;
 *   - a descriptor may end in ".*" or "." which is ignored; "*" alone matches every name.
 * wf_name / wf_descs restrict the FUNCTIONAL obligations to what 3.12.1 calls names and
 * descriptors; memory-safety obligations are demanded for arbitrary strings. */
#ifndef NM_SPEC_H
#define NM_SPEC_H
#include "vstr.h"

static inline int spec_is_sep(char c) { return c == ' ' || c == '\t' || c == '\n' || c == '\r'; }
static inline int spec_is_tokchar(char c) {
  return c != 0 && c != '.' && c != '*' && !spec_is_sep(c) && c != '\v' && c != '\f';
}

/* s[a,b) is tok('.'tok)* */
static inline int spec_wf_dotted(const vstr *s, size_t a, size_t b) {
  if (a >= b) return 0;
  int prev_dot = 1; /* expecting a token character */
  for (size_t i = a; i < b; i++) {
    char c = s->b[i];
    if (c == '.') { if (prev_dot) return 0; prev_dot = 1; }
    else if (spec_is_tokchar(c)) prev_dot = 0;
    else return 0;
  }
  return !prev_dot;
}
static inline int spec_wf_name(const vstr *n) { return spec_wf_dotted(n, 0, n->len); }

/* one descriptor d = s[a,b): "*" | tok('.'tok)* (".*" | ".")? */
static inline int spec_wf_desc(const vstr *s, size_t a, size_t b) {
  if (b == a + 1 && s->b[a] == '*') return 1;
  if (b >= a + 2 && s->b[b - 2] == '.' && s->b[b - 1] == '*') return spec_wf_dotted(s, a, b - 2);
  if (b >= a + 1 && s->b[b - 1] == '.') return spec_wf_dotted(s, a, b - 1);
  return spec_wf_dotted(s, a, b);
}
/* does descriptor s[a,b) match name n ? */
static inline int spec_desc_matches(const vstr *s, size_t a, size_t b, const vstr *n) {
  if (b == a + 1 && s->b[a] == '*') return 1;
  if (b >= a + 2 && s->b[b - 2] == '.' && s->b[b - 1] == '*') b -= 2;
  else if (b >= a + 1 && s->b[b - 1] == '.') b -= 1;
  size_t m = b - a;
  if (m == 0 || m > n->len) return 0;
  for (size_t i = 0; i < m; i++) if (s->b[a + i] != n->b[i]) return 0;   /* case sensitive */
  return m == n->len || n->b[m] == '.';
}
/* wf: at least one descriptor, every descriptor well-formed */
static inline int spec_wf_descs(const vstr *s) {
  size_t i = 0; int count = 0;
  while (i < s->len) {
    while (i < s->len && spec_is_sep(s->b[i])) i++;
    if (i >= s->len) break;
    size_t a = i;
    while (i < s->len && !spec_is_sep(s->b[i])) i++;
    if (!spec_wf_desc(s, a, i)) return 0;
    count++;
  }
  return count > 0;
}
static inline int nm_spec(const vstr *s, const vstr *n) {
  size_t i = 0;
  while (i < s->len) {
    while (i < s->len && spec_is_sep(s->b[i])) i++;
    if (i >= s->len) break;
    size_t a = i;
    while (i < s->len && !spec_is_sep(s->b[i])) i++;
    if (spec_desc_matches(s, a, i, n)) return 1;
  }
  return 0;
}
#endif
