"""C12 - event descriptors match as Recommendation 3.12.1 prescribes (claimed in part; DESIGN.md section 3, C12)."""
import importlib.util
import os
import time

import common


def _load():
    spec = importlib.util.spec_from_file_location('run_nm', os.path.join(common.VERIF, 'engines/extract/run_nm.py'))
    m = importlib.util.module_from_spec(spec)
    spec.loader.exec_module(m)
    return m


def check(tier):
    t0 = time.time()
    part = _load().run(tier)
    L = 6 if tier == 'quick' else 8
    expl = ('BOUNDED, not a proof: uscxml::nameMatch (String.cpp) and the copy in the generated-C scaffolding (test-gen-c.cpp) are '
            'extracted mechanically to C on every run (std::string operations rewritten to a fixed-capacity shim that asserts '
            'std::string\'s preconditions) and checked by CBMC for ALL descriptor lists and event names of length <= %d over the '
            'full 8-bit alphabet, loops unwound with unwinding assertions (complete inside the bound): result == spec function '
            'written from Recommendation 3.12.1 (split into O_sound and O_complete) for well-formed inputs, no std::string '
            'precondition violated and termination for arbitrary strings, and O_same: both copies agree on every input. '
            'Counterexamples are replayed natively against the real String.cpp and the verbatim scaffold text. '
            'Not covered: Trie-based static resolution in the Promela/VHDL back ends.' % L)
    return common.finish('C12', tier, 'other', [part], t0, expl, level_keys={'exhaustive': False})


def replay(path):
    return _load().replay(path)
