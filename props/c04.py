"""C04 - generated ANSI-C machine: memory safety, frame, life cycle, dequeue order (DESIGN.md section 3, C04)."""
from props import genc_common


def want(key, tag, f):
    if key == 'T':
        return tag == 'C04'
    if key in ('A', 'G'):
        return True
    return tag != 'C02'   # part B: everything except the C02 legality assertions


def check(tier):
    expl = ('Per emitted document (byte-for-byte output of uscxml-transform -tc built from /repo): the emitted uscxml_step(), executable-content '
            'functions and bit_* helpers are verified with the CONCRETE emitted tables for ALL contexts (arbitrary flags, configuration, history, '
            'invocations, event) and ALL callback behaviours: every pointer/bounds/overflow/conversion check CBMC generates inside the emitted '
            'functions, the dfcc frame of the contract on uscxml_step (only ctx->flags/event/config/history/invocations/initialized_data are '
            'assigned), life-cycle postconditions (FINISHED absorbing, IDLE leaves configuration unchanged), dequeue order (internal before '
            'external, external only at a stable point), callback argument validity, and generator-side sizing facts. The unbounded '
            'DEQUEUE_EVENT loop is closed by a loop contract + glue lemma. The SECOND sentence of C04 (no out-of-bounds access) is what is decided; '
            'equality with the interpreter\'s trace (first sentence) is NOT - the interpreter is C++ and out of reach.')
    return genc_common.account('C04', tier, want, expl, 'translation_validation')


def replay(path):
    return genc_common.replay(path)
