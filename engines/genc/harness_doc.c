/* Per-document harness for the emitted ANSI-C machine (route R2: GENC_FILE is the byte-for-byte output of
 * uscxml-transform -tc built from /repo's working tree).  Entries:
 *   h_tables   C05 (+ sizing / well-formedness facts of C04): closed obligations on the emitted tables
 *   h_step     C04 Level D (memory safety, frame, life cycle, dequeue order for ALL contexts and callback
 *              behaviours) and C02 (Inv => Inv' for one uscxml_step from every legal pre-state)
 */
#include <stddef.h>
#include GENC_FILE
#include DOC_FACTS
#include "spec_rec.h"
#include "harness_tables.h"
#include "wf.h"
#include "spec_step.h"

int nondet_int(void);
unsigned char nondet_uchar(void);
_Bool nondet_bool(void);

/* executable-content callbacks answer USCXML_ERR_OK or an error code; IDLE and DONE are the step function's own answers */
static int nondet_err(void) { int r = nondet_int(); __CPROVER_assume(r == USCXML_ERR_OK || (r >= USCXML_ERR_MISSING_CALLBACK && r <= USCXML_ERR_UNSUPPORTED)); return r; }

/* ---- ghost state written by the callback stubs ---- */
/* one struct = one assigns target (dfcc's loop instrumentation is superlinear in the number of targets) */
struct ghost_t {
  int calls;            /* 1 once a user callback was invoked during the step */
  int int_last_null;    /* last dequeue_internal answer was NULL */
  int ext_calls;        /* 1 once dequeue_external was called */
  int foreach_budget;   /* bound on the items a <foreach> iterates over (see assumptions) */
  int last_ext_null;
  unsigned char done[USCXML_MAX_NR_STATES_BYTES]; /* states for which raise_done_event was called during the step */
  int phase, last;      /* ORDER_LOG: 0 nothing yet, 1 exits, 2 transition content, 3 entries; index of the last exit/entry */
  unsigned char xl[USCXML_MAX_NR_STATES_BYTES], el[USCXML_MAX_NR_STATES_BYTES]; /* ORDER_LOG: states whose onexit / onentry content ran */
  unsigned char tl[USCXML_MAX_NR_TRANS_BYTES]; /* ORDER_LOG: transitions whose content ran */
  int last_tsrc;        /* ORDER_LOG: source of the last transition whose content ran */
  unsigned char il[USCXML_MAX_NR_STATES_BYTES]; /* ORDER_LOG: states whose <initial> / default history transition content ran */
#if D_SEQ > 0
  int seq_on;           /* SEQ: all callbacks the document's content needs are present (a missing one aborts a handler half-way) */
  int seq_expect;       /* SEQ: number of the executable element that has to run next (0: no handler running) */
  int seq_started[D_SEQ + 1]; /* SEQ: how often the handler block beginning with element n was started in this step */
  int seq_loop[D_SEQ + 1];    /* SEQ: <foreach> n: 0 not running, 1 initialised (foreach_next is due), 2 exhausted (foreach_done is due) */
#endif
  int pre_ok;           /* the step started from a pristine context or from one satisfying Inv */
  int ans_m[D_T + 1];   /* what is_matched answers for transition t during this step (chosen up front, any value) */
  int ans_c[D_T + 1];   /* what is_true answers for the condition text of transition t (one answer per text) */
} G;
#define g_calls G.calls
#define g_int_last_null G.int_last_null
#define g_ext_calls G.ext_calls
#define g_foreach_budget G.foreach_budget
#define g_last_ext_null G.last_ext_null
#define g_phase G.phase
#define g_last G.last
static char g_event_obj; /* the one event object the queues hand out */

#define NT (USCXML_MACHINE.nr_transitions)
#define NS (USCXML_MACHINE.nr_states)

#if D_SEQ > 0 && defined(SPEC_ANS)
/* SEQ convention (corpus/c17_exec_content_seq.scxml): the executable elements carry numbers q<nn> / Q<nn>; the control flow
   of every handler block is read from the XML (d_seq_*); each callback must be invoked for exactly the element that is due */
static int seq_num(const char *s) {
  if (s != 0 && (s[0] == 'q' || s[0] == 'Q') && s[1] >= '0' && s[1] <= '9' && s[2] >= '0' && s[2] <= '9' && s[3] == 0) return (s[1] - '0') * 10 + (s[2] - '0');
  return 0;
}
static int seq_visit(int n, int kind) {
  __CPROVER_assert(n >= 1 && n <= D_SEQ && d_seq_kind[n <= D_SEQ ? n : 0] == kind, "C04.content: the callback that is invoked fits the kind of the executable element (condition / action)");
  if (n < 1 || n > D_SEQ) return 0;
  if (G.seq_expect == 0) {
    __CPROVER_assert(d_seq_entry[n], "C04.content: a handler block starts with its first executable element");
    G.seq_started[n]++;
  } else {
    __CPROVER_assert(n == G.seq_expect, "C04.content: executable content runs in document order, every element once; an <if> chain tests its conditions in order, each with its own condition, and runs the first branch whose condition holds (else the <else> branch)");
  }
  return 1;
}
#define SEQ_PLAIN(str) do { int n_ = G.seq_on ? seq_num(str) : 0; if (n_) { g_calls = 1; if (seq_visit(n_, 1)) G.seq_expect = d_seq_next[n_]; return USCXML_ERR_OK; } } while (0)
#else
#define SEQ_PLAIN(str) do { } while (0)
#endif

static void *stub_dequeue_internal(const uscxml_ctx *ctx) {
  g_calls = 1;
  __CPROVER_assert(!(ctx->flags & USCXML_CTX_SPONTANEOUS), "C04.order: no event is dequeued while spontaneous transitions are still to be tried");
  if (nondet_bool()) { g_int_last_null = 1; return 0; }
  g_int_last_null = 0;
  return &g_event_obj;
}
static void *stub_dequeue_external(const uscxml_ctx *ctx) {
  g_calls = 1; g_ext_calls = 1;
  __CPROVER_assert(!(ctx->flags & USCXML_CTX_SPONTANEOUS), "C04.order: external events are dequeued only at a stable point (no spontaneous transition pending)");
  __CPROVER_assert(ctx->dequeue_internal == 0 || g_int_last_null, "C04.order: the external queue is consulted only after the internal queue answered empty");
  if (nondet_bool()) { g_last_ext_null = 1; return 0; }
  g_last_ext_null = 0;
  return &g_event_obj;
}
static int stub_is_matched(const uscxml_ctx *ctx, const uscxml_transition *t, const void *event) {
  g_calls = 1;
  __CPROVER_assert(t >= &USCXML_MACHINE.transitions[0] && t < &USCXML_MACHINE.transitions[0] + NT, "C04.callback: is_matched receives a transition of the machine");
  __CPROVER_assert(event == ctx->event && event != 0, "C04.callback: is_matched receives the current event");
  __CPROVER_assert(t->event != 0, "C04.callback: is_matched is asked only for transitions with an event descriptor");
#ifdef SPEC_ANS
  if (t >= &USCXML_MACHINE.transitions[0] && t < &USCXML_MACHINE.transitions[0] + NT) return G.ans_m[t - &USCXML_MACHINE.transitions[0]];
#endif
  return nondet_int();
}
static int stub_is_true(const uscxml_ctx *ctx, const char *expr) {
  g_calls = 1;
  __CPROVER_assert(expr != 0, "C04.callback: is_true receives an expression");
#if D_SEQ > 0 && defined(SPEC_ANS)
  { int n_ = G.seq_on ? seq_num(expr) : 0; if (n_) { int a_ = nondet_int(); if (seq_visit(n_, 2)) G.seq_expect = a_ ? d_seq_true[n_] : d_seq_false[n_]; return a_; } }
#endif
#ifdef SPEC_ANS
  if (expr != 0) { int ci = sps_cond_index(expr); if (ci >= 0) return G.ans_c[ci]; }
#endif
  return nondet_int();
}
static int stub_raise_done_event(const uscxml_ctx *ctx, const uscxml_state *state, const uscxml_elem_donedata *donedata) {
  g_calls = 1;
  __CPROVER_assert(state >= &USCXML_MACHINE.states[0] && state < &USCXML_MACHINE.states[0] + NS, "C04.callback: raise_done_event receives a state of the machine");
  if (state >= &USCXML_MACHINE.states[0] && state < &USCXML_MACHINE.states[0] + NS) {
    int idx = (int)(state - &USCXML_MACHINE.states[0]);
    __CPROVER_assert(!G.pre_ok || !sp_bit(G.done, idx), "C04.done: a done event is raised at most once per state and step");
    G.done[idx >> 3] = (unsigned char)(G.done[idx >> 3] | (1u << (idx & 7)));
  }
  return nondet_err();
}
/* ORDER_LOG (corpus/c12_content_order.scxml, every chart of corpus/gen_charts.py): <log expr="X<nn>"> in onexit, "E<nn>" in
   onentry (nn: a number per state, increasing in document order), "T<kk>" in transitions */
static int stub_log(const uscxml_ctx *ctx, const char *label, const char *expr) {
  SEQ_PLAIN(expr);
  g_calls = 1;
#if D_ORDER_LOG && defined(SPEC_ANS) /* part B only: part A proves nothing but the loop invariant and must stay loop-free here */
  if (expr != 0 && (expr[0] == 'X' || expr[0] == 'E' || expr[0] == 'T' || expr[0] == 'I' || expr[0] == 'H')) {
    int n = (expr[1] - '0') * 10 + (expr[2] - '0');
    if (expr[0] == 'I' || expr[0] == 'H') {
      /* content of an <initial> transition (I<nn>) / of the default transition of a history (H<nn>), nn = number of the parent state */
      int p = -1, ps = -1;
      for (int j = 1; j < D_N; j++) if (d_lognum[j] == n) p = j;
      /* the pseudo-state concerned: the <initial> child (I) / the first history child (H) of state p */
      for (int j = D_N - 1; j >= 1; j--) if (p >= 0 && d_parent[j] == p && (expr[0] == 'I' ? d_kind[j] == K_INITIAL : sp_is_history(j))) ps = j;
      __CPROVER_assert(g_phase == 3 && n == g_last, "C04.order: the content of an <initial> transition / of a default history transition runs right after the onentry content of the parent state");
      if (ps >= 0) {
        __CPROVER_assert(!sp_bit(G.il, ps), "C04.content: the content of an <initial> / default history transition runs at most once per step");
        G.il[ps >> 3] = (unsigned char)(G.il[ps >> 3] | (1u << (ps & 7)));
      }
      return USCXML_ERR_OK;
    }
    if (expr[0] == 'T') {
      int t = -1;
      for (int u = 0; u < D_T; u++) if (d_tlognum[u] == n) t = u;
      __CPROVER_assert(g_phase <= 2, "C04.order: transition content runs after all exits and before all entries");
      if (t >= 0) {
        __CPROVER_assert(!sp_bit(G.tl, t), "C04.content: the content of a transition runs at most once per step");
        __CPROVER_assert(g_phase != 2 || G.last_tsrc < d_tsrc[t] || sp_desc(G.last_tsrc, d_tsrc[t]), "C04.order: transition content runs in document order of the transitions' source states");
        G.tl[t >> 3] = (unsigned char)(G.tl[t >> 3] | (1u << (t & 7)));
        G.last_tsrc = d_tsrc[t];
      }
      g_phase = 2;
      return USCXML_ERR_OK;
    }
    int i = -1;
    for (int j = 1; j < D_N; j++) if (d_lognum[j] == n) i = j;
    if (expr[0] == 'X') {
      __CPROVER_assert(g_phase <= 1, "C04.order: states are exited before transition content runs and before states are entered");
      __CPROVER_assert(g_phase != 1 || n < g_last, "C04.order: states are exited in reverse document order");
      if (i >= 0) {
        __CPROVER_assert(!sp_bit(G.xl, i), "C04.content: the onexit content of a state runs at most once per step");
        G.xl[i >> 3] = (unsigned char)(G.xl[i >> 3] | (1u << (i & 7)));
      }
      g_phase = 1; g_last = n;
    } else {
      __CPROVER_assert(g_phase != 3 || n > g_last, "C04.order: states are entered in document order");
      if (i >= 0) {
        __CPROVER_assert(!sp_bit(G.el, i), "C04.content: the onentry content of a state runs at most once per step");
        G.el[i >> 3] = (unsigned char)(G.el[i >> 3] | (1u << (i & 7)));
      }
      g_phase = 3; g_last = n;
    }
    return USCXML_ERR_OK;
  }
#endif
  return nondet_err();
}
static int stub_raise(const uscxml_ctx *ctx, const char *event) { SEQ_PLAIN(event); g_calls = 1; return nondet_err(); }
static int stub_send(const uscxml_ctx *ctx, const uscxml_elem_send *send) { g_calls = 1; __CPROVER_assert(send != 0, "C04.callback: send element"); if (send != 0) SEQ_PLAIN(send->event); return nondet_err(); }
static int stub_foreach_init(const uscxml_ctx *ctx, const uscxml_elem_foreach *f) {
  g_calls = 1;
#if D_SEQ > 0 && defined(SPEC_ANS)
  { int n_ = (G.seq_on && f != 0) ? seq_num(f->array) : 0;
    if (n_) { if (seq_visit(n_, 3)) { __CPROVER_assert(G.seq_loop[n_] == 0, "C04.content: a <foreach> is initialised once"); G.seq_loop[n_] = 1; G.seq_expect = n_; } return USCXML_ERR_OK; } }
#endif
  return nondet_err();
}
static int stub_foreach_next(const uscxml_ctx *ctx, const uscxml_elem_foreach *f) {
  g_calls = 1;
#if D_SEQ > 0 && defined(SPEC_ANS)
  { int n_ = (G.seq_on && f != 0) ? seq_num(f->array) : 0;
    if (n_ >= 1 && n_ <= D_SEQ) {
      __CPROVER_assert(G.seq_expect == n_ && G.seq_loop[n_] == 1, "C04.content: foreach_next is asked at the head of the loop: after foreach_init and after every complete pass through the body");
      if (g_foreach_budget > 0 && nondet_bool()) { g_foreach_budget--; G.seq_expect = d_seq_true[n_]; return USCXML_ERR_OK; }
      G.seq_loop[n_] = 2;
      return USCXML_ERR_FOREACH_DONE;
    } }
#endif
  if (g_foreach_budget <= 0) return USCXML_ERR_FOREACH_DONE;
  g_foreach_budget--;
  return nondet_err();
}
static int stub_foreach_done(const uscxml_ctx *ctx, const uscxml_elem_foreach *f) {
  g_calls = 1;
#if D_SEQ > 0 && defined(SPEC_ANS)
  { int n_ = (G.seq_on && f != 0) ? seq_num(f->array) : 0;
    if (n_ >= 1 && n_ <= D_SEQ) {
      __CPROVER_assert(G.seq_expect == n_ && G.seq_loop[n_] == 2, "C04.content: foreach_done is called once, when foreach_next has reported the end of the array");
      G.seq_loop[n_] = 0; G.seq_expect = d_seq_false[n_];
      return USCXML_ERR_OK;
    } }
#endif
  return nondet_err();
}
static int stub_assign(const uscxml_ctx *ctx, const uscxml_elem_assign *a) { g_calls = 1; __CPROVER_assert(a != 0, "C04.callback: assign element"); if (a != 0) SEQ_PLAIN(a->location); return nondet_err(); }
static int stub_init(const uscxml_ctx *ctx, const uscxml_elem_data *d) { g_calls = 1; __CPROVER_assert(d != 0, "C04.callback: data element"); return nondet_err(); }
static int stub_cancel(const uscxml_ctx *ctx, const char *sendid, const char *sendidexpr) { SEQ_PLAIN(sendid); g_calls = 1; return nondet_err(); }
static int stub_script(const uscxml_ctx *ctx, const char *src, const char *content) { SEQ_PLAIN(content); g_calls = 1; return nondet_err(); }
static int stub_invoke(const uscxml_ctx *ctx, const uscxml_state *s, const uscxml_elem_invoke *inv, unsigned char uninvoke) {
  g_calls = 1;
  __CPROVER_assert(s >= &USCXML_MACHINE.states[0] && s < &USCXML_MACHINE.states[0] + NS, "C04.callback: invoke receives a state of the machine");
  /* only STARTING is pinned to the end of the macrostep: the Recommendation cancels an invocation when its state is exited,
     the emitted code at the next stable point - either is accepted */
  __CPROVER_assert(uninvoke || ctx->dequeue_internal == 0 || g_int_last_null,
                   "C04.order: an invocation is started only when the internal queue has answered empty (end of the macrostep)");
  return nondet_err();
}

/* ---- the context under test and a copy of its pre-state ---- */
uscxml_ctx g_ctx, g_pre;
int g_pre_inv;          /* Inv held before the step (or the context was pristine) */
int g_ret;

/* witness copies for the trace */
unsigned char wit_pre_flags, wit_pre_config[USCXML_MAX_NR_STATES_BYTES], wit_pre_history[USCXML_MAX_NR_STATES_BYTES], wit_pre_invocations[USCXML_MAX_NR_STATES_BYTES];
unsigned char wit_post_flags, wit_post_config[USCXML_MAX_NR_STATES_BYTES], wit_post_history[USCXML_MAX_NR_STATES_BYTES];

static int inv(const uscxml_ctx *c) { return legal_config(c->config) && hist_ok(c->history); }

static int bytes_eq(const unsigned char *a, const unsigned char *b) {
  for (int k = 0; k < USCXML_MAX_NR_STATES_BYTES; k++) if (a[k] != b[k]) return 0;
  return 1;
}
static int all_zero(const unsigned char *a) {
  for (int k = 0; k < USCXML_MAX_NR_STATES_BYTES; k++) if (a[k]) return 0;
  return 1;
}

#ifdef STEP_CONTRACT
/* contract of the emitted step function: attached from this re-declaration (the emitted file is unmodified) */
int uscxml_step(uscxml_ctx *ctx)
__CPROVER_requires(ctx == &g_ctx && ctx->machine == &USCXML_MACHINE)
/* type invariant of a context: never used (pristine) or initialised */
__CPROVER_requires(ctx->flags == USCXML_CTX_PRISTINE || (ctx->flags & USCXML_CTX_INITIALIZED))
/* derived preconditions: the emitted code calls these callbacks unguarded (is_matched, raise_done_event in the
 * step function; invoke in the emitted <invoke> wrappers) - every other callback is guarded and may be NULL */
__CPROVER_requires(ctx->is_matched != 0 && ctx->raise_done_event != 0 && ctx->invoke != 0)
/* frame: only the context's own state and the stubs' ghosts; nothing of the machine tables */
__CPROVER_assigns(ctx->flags, ctx->event,
                  __CPROVER_object_upto(ctx->config, USCXML_MAX_NR_STATES_BYTES),
                  __CPROVER_object_upto(ctx->history, USCXML_MAX_NR_STATES_BYTES),
                  __CPROVER_object_upto(ctx->invocations, USCXML_MAX_NR_STATES_BYTES),
                  __CPROVER_object_upto(ctx->initialized_data, USCXML_MAX_NR_STATES_BYTES),
                  G)
/* life cycle */
__CPROVER_ensures((__CPROVER_old(ctx->flags) & USCXML_CTX_FINISHED) ==> (__CPROVER_return_value == USCXML_ERR_DONE && ctx->flags == __CPROVER_old(ctx->flags) && g_calls == __CPROVER_old(g_calls)))
__CPROVER_ensures((!(__CPROVER_old(ctx->flags) & USCXML_CTX_FINISHED) && (__CPROVER_old(ctx->flags) & USCXML_CTX_TOP_LEVEL_FINAL) && __CPROVER_return_value == USCXML_ERR_DONE) ==> (ctx->flags & USCXML_CTX_FINISHED))
__CPROVER_ensures(__CPROVER_return_value == USCXML_ERR_IDLE ==> (g_last_ext_null && g_ext_calls))
__CPROVER_ensures(ctx->machine == &USCXML_MACHINE)
__CPROVER_ensures((__CPROVER_old(ctx->flags) != USCXML_CTX_PRISTINE) ==> ((ctx->flags & USCXML_CTX_INITIALIZED) == (__CPROVER_old(ctx->flags) & USCXML_CTX_INITIALIZED)))
__CPROVER_ensures((__CPROVER_old(ctx->flags) == USCXML_CTX_PRISTINE) ==> (ctx->flags & USCXML_CTX_INITIALIZED))
;
#endif

static void setup_ctx(void) {
  /* every context this document's machine can be in - and many it cannot: memory safety must not depend on legality */
  g_ctx.flags = nondet_uchar();
  g_ctx.machine = &USCXML_MACHINE;
  for (int k = 0; k < USCXML_MAX_NR_STATES_BYTES; k++) {
    g_ctx.config[k] = nondet_uchar(); g_ctx.history[k] = nondet_uchar();
    g_ctx.invocations[k] = nondet_uchar(); g_ctx.initialized_data[k] = nondet_uchar();
  }
  g_ctx.user_data = 0;
  g_ctx.event = nondet_bool() ? (void *)&g_event_obj : (void *)0;
  g_ctx.dequeue_internal = nondet_bool() ? stub_dequeue_internal : 0;
  g_ctx.dequeue_external = nondet_bool() ? stub_dequeue_external : 0;
  g_ctx.is_matched = stub_is_matched;
  g_ctx.is_true = nondet_bool() ? stub_is_true : 0;
  g_ctx.raise_done_event = stub_raise_done_event;
  g_ctx.exec_content_log = nondet_bool() ? stub_log : 0;
  g_ctx.exec_content_raise = nondet_bool() ? stub_raise : 0;
  g_ctx.exec_content_send = nondet_bool() ? stub_send : 0;
  g_ctx.exec_content_foreach_init = nondet_bool() ? stub_foreach_init : 0;
  g_ctx.exec_content_foreach_next = nondet_bool() ? stub_foreach_next : 0;
  g_ctx.exec_content_foreach_done = nondet_bool() ? stub_foreach_done : 0;
  g_ctx.exec_content_assign = nondet_bool() ? stub_assign : 0;
  g_ctx.exec_content_init = nondet_bool() ? stub_init : 0;
  g_ctx.exec_content_cancel = nondet_bool() ? stub_cancel : 0;
  g_ctx.exec_content_script = nondet_bool() ? stub_script : 0;
  g_ctx.invoke = stub_invoke;
  g_calls = 0; g_int_last_null = 0; g_ext_calls = 0; g_last_ext_null = 0; g_foreach_budget = 2; g_phase = 0; g_last = 0;
  for (int k = 0; k < USCXML_MAX_NR_STATES_BYTES; k++) G.done[k] = 0;
  for (int t = 0; t <= D_T; t++) { G.ans_m[t] = nondet_int(); G.ans_c[t] = nondet_int(); }
  for (int k = 0; k < USCXML_MAX_NR_STATES_BYTES; k++) { G.xl[k] = 0; G.el[k] = 0; }
  for (int k = 0; k < USCXML_MAX_NR_TRANS_BYTES; k++) G.tl[k] = 0;
  G.last_tsrc = 0;
  G.pre_ok = 0;
  for (int k = 0; k < USCXML_MAX_NR_STATES_BYTES; k++) G.il[k] = 0;
#if D_SEQ > 0
  for (int k = 0; k <= D_SEQ; k++) G.seq_loop[k] = 0;
  G.seq_on = g_ctx.exec_content_script != 0 && g_ctx.exec_content_foreach_init != 0 && g_ctx.exec_content_foreach_next != 0 && g_ctx.exec_content_foreach_done != 0 && g_ctx.exec_content_log != 0 && g_ctx.exec_content_raise != 0 && g_ctx.exec_content_send != 0 && g_ctx.exec_content_assign != 0 && g_ctx.exec_content_cancel != 0 && g_ctx.is_true != 0;
  G.seq_expect = 0;
  for (int k = 0; k <= D_SEQ; k++) G.seq_started[k] = 0;
#endif
}

int wit_ans_m[D_T + 1], wit_ans_c[D_T + 1], wit_sel[D_T + 1];
unsigned char wit_spec_config[USCXML_MAX_NR_STATES_BYTES];

void h_step(void) {
  setup_ctx();

  /* C02 pre-state: pristine (everything empty) or initialised, not finished, Inv */
  int pristine = g_ctx.flags == USCXML_CTX_PRISTINE && all_zero(g_ctx.config) && all_zero(g_ctx.history);
  /* TRANSITION_FOUND is transient: set and cleared inside one selection pass, never visible between steps */
  int running = (g_ctx.flags & USCXML_CTX_INITIALIZED) && !(g_ctx.flags & (USCXML_CTX_FINISHED | USCXML_CTX_TOP_LEVEL_FINAL | USCXML_CTX_TRANSITION_FOUND)) && inv(&g_ctx);
  g_pre_inv = pristine || running;
  G.pre_ok = g_pre_inv;
  g_pre = g_ctx;
  for (int t = 0; t <= D_T; t++) { wit_ans_m[t] = G.ans_m[t]; wit_ans_c[t] = G.ans_c[t]; }
  int pre_ans_m[D_T + 1], pre_ans_c[D_T + 1];
  for (int t = 0; t <= D_T; t++) { pre_ans_m[t] = G.ans_m[t]; pre_ans_c[t] = G.ans_c[t]; }
  wit_pre_flags = g_ctx.flags;
  for (int k = 0; k < USCXML_MAX_NR_STATES_BYTES; k++) { wit_pre_config[k] = g_ctx.config[k]; wit_pre_history[k] = g_ctx.history[k]; wit_pre_invocations[k] = g_ctx.invocations[k]; }

  g_ret = uscxml_step(&g_ctx);

  wit_post_flags = g_ctx.flags;
  for (int k = 0; k < USCXML_MAX_NR_STATES_BYTES; k++) { wit_post_config[k] = g_ctx.config[k]; wit_post_history[k] = g_ctx.history[k]; }
  __CPROVER_assert(0, "CANARY step returns");
  if (g_ret == USCXML_ERR_OK) __CPROVER_assert(0, "CANARY step returns OK");
#if D_TSEL > 0
  if (g_ret == USCXML_ERR_OK && g_pre_inv && !pristine) __CPROVER_assert(0, "CANARY microstep from a legal running configuration");
#endif
  if (g_pre_inv && pristine) __CPROVER_assert(0, "CANARY initial step from a pristine context");

  /* C04 life cycle / idle frame */
  if (g_pre.flags & USCXML_CTX_FINISHED)
    __CPROVER_assert(bytes_eq(g_ctx.config, g_pre.config) && bytes_eq(g_ctx.history, g_pre.history), "C04.lifecycle: a finished machine is not changed by further steps");
  if (g_ret == USCXML_ERR_IDLE)
    __CPROVER_assert(bytes_eq(g_ctx.config, g_pre.config) && bytes_eq(g_ctx.history, g_pre.history), "C04.lifecycle: an idle step leaves configuration and history unchanged");

  /* C04 life cycle: the machine is flagged as done only when a final child of <scxml> has been entered */
  if ((g_ctx.flags & USCXML_CTX_TOP_LEVEL_FINAL) && !(g_pre.flags & USCXML_CTX_TOP_LEVEL_FINAL) && g_ret == USCXML_ERR_OK) {
    int top_final = 0;
    for (int i = 1; i < D_N; i++) if (d_kind[i] == K_FINAL && d_parent[i] == 0 && sp_bit(g_ctx.config, i)) top_final = 1;
    __CPROVER_assert(top_final, "C04.lifecycle: TOP_LEVEL_FINAL is set only when a final child of <scxml> is active (a nested final raises done.state.<parent> instead)");
  }
  /* C04 done events (Recommendation 3.7 / enterStates): entering a final state raises done.state.<parent>; if the
     grandparent is a parallel state all of whose children are then in a final state, done.state.<grandparent> too */
  if (g_pre_inv && g_ret == USCXML_ERR_OK && legal_config(g_ctx.config)) {
    int in_final[D_N];
    for (int i = D_N - 1; i >= 0; i--) {
      in_final[i] = 0;
      if (!sp_bit(g_ctx.config, i)) continue;
      if (sp_compound(i)) { for (int j = i + 1; j < D_N; j++) if (sp_child(j, i) && d_kind[j] == K_FINAL && sp_bit(g_ctx.config, j)) in_final[i] = 1; }
      else if (d_kind[i] == K_PARALLEL) { in_final[i] = 1; for (int j = i + 1; j < D_N; j++) if (sp_child(j, i) && sp_proper(j) && !in_final[j]) in_final[i] = 0; }
    }
    for (int f = 1; f < D_N; f++) {
      if (d_kind[f] != K_FINAL || !sp_bit(g_ctx.config, f) || sp_bit(g_pre.config, f)) continue; /* newly entered final states */
      int p = d_parent[f];
      wit_row = f;
      if (p == 0) {
        __CPROVER_assert(g_ctx.flags & USCXML_CTX_TOP_LEVEL_FINAL, "C04.lifecycle: entering a final child of <scxml> flags the machine as done");
        continue;
      }
      __CPROVER_assert(sp_bit(G.done, p), "C04.done: entering a final state raises done.state.<parent>");
      int gp = d_parent[p];
      if (d_kind[gp] == K_PARALLEL && in_final[gp])
        __CPROVER_assert(sp_bit(G.done, gp), "C04.done: when the last region of a parallel state reaches a final state, done.state.<parallel> is raised");
    }
    /* and no other done event: done.state.<s> needs a final child of s entered in this step, or s parallel with all
       regions in a final state and a final grandchild entered in this step */
    for (int s = 0; s < D_N; s++) {
      if (!sp_bit(G.done, s)) continue;
      int why = 0;
      for (int f = 1; f < D_N; f++) {
        if (d_kind[f] != K_FINAL || !sp_bit(g_ctx.config, f)) continue;
        if (d_parent[f] == s && s != 0) why = 1;
        if (d_parent[f] != 0 && d_parent[d_parent[f]] == s && d_kind[s] == K_PARALLEL && in_final[s]) why = 1;
      }
      wit_row = s;
      __CPROVER_assert(why, "C04.done: a done event is raised only for the parent of an active final state or for a parallel state all of whose regions are in a final state");
    }
  }

  /* C04 life cycle: when the machine finishes, every invocation is cancelled */
  if (!(g_pre.flags & USCXML_CTX_FINISHED) && (g_ctx.flags & USCXML_CTX_FINISHED)) {
    int left = 0;
    for (int i = 0; i < D_N; i++) if (sp_bit(g_ctx.invocations, i)) left = 1;
    __CPROVER_assert(!left, "C04.lifecycle: a finished machine has no invocation left running (all are cancelled in the finishing step)");
  }
#ifndef SKIP_HIST
  /* C02 history: what is remembered for a history changes only in a step in which its parent was active, and then it
     becomes exactly what was active below the parent (shallow: among its child states) before the step */
  if (g_pre_inv && (g_ret == USCXML_ERR_OK || g_ret == USCXML_ERR_IDLE || g_ret == USCXML_ERR_DONE)) {
    for (int hh = 1; hh < D_N; hh++) {
      if (!sp_is_history(hh)) continue;
      int p = d_parent[hh], same = 1, recorded = 1;
      for (int j = 1; j < D_N; j++) {
        int in_region = sp_proper(j) && (d_kind[hh] == K_HSHALLOW ? sp_child(j, p) : sp_desc(j, p));
        if (!in_region) continue;
        if (sp_bit(g_ctx.history, j) != sp_bit(g_pre.history, j)) same = 0;
        if (sp_bit(g_ctx.history, j) != sp_bit(g_pre.config, j)) recorded = 0;
      }
      wit_row = hh;
      __CPROVER_assert(same || (sp_bit(g_pre.config, p) && recorded), "C02.history: the record of a history changes only when its parent was active, and then to the states that were active below the parent");
    }
  }
#endif

#if defined(SPEC_ANS)
  /* C04 step function against the spec function of one microstep (spec_step.h): the configuration after a step
     that returns OK is the one the Recommendation's algorithm computes from the configuration and history
     before it and the answers of is_matched / is_true */
  if (g_pre_inv && g_ret == USCXML_ERR_OK) {
    int sel[D_T + 1];
    for (int t = 0; t <= D_T; t++) sel[t] = 0;
    if (!pristine) {
      int spont = (g_pre.flags & USCXML_CTX_SPONTANEOUS) != 0;
      __CPROVER_assert(spont == (g_ctx.event == 0), "C04.select: eventless transitions are tried (with a NULL event) exactly when the previous step took a transition; otherwise an event was dequeued");
      sps_select(g_pre.config, spont, pre_ans_m, pre_ans_c, g_pre.is_true != 0, sel);
      int any = 0;
      for (int t = 0; t < D_T; t++) { wit_sel[t] = sel[t]; if (sel[t]) any = 1; }
      __CPROVER_assert(any, "C04.select: a step returns OK only if the optimal enabled transition set is not empty");
    }
    unsigned char sx[USCXML_MAX_NR_STATES_BYTES], se[USCXML_MAX_NR_STATES_BYTES];
    sps_config(g_pre.config, g_pre.history, sel, pristine, wit_spec_config, sx, se);
#ifdef SKIP_HIST
    /* nested histories: the shared history bit set is not read through the spec regions; steps that restore a history are left out */
    if (!sps_hist_used)
#endif
    __CPROVER_assert(bytes_eq(g_ctx.config, wit_spec_config), "C04.step: the configuration after the step is the one the microstep algorithm of the Recommendation yields (optimal enabled transition set, exit set, entry set with history and default completion)");
#if D_ORDER_LOG
    /* executed content: with a log callback present, the handlers that ran are exactly those of the exit set, the
       optimal transition set and the entry set */
#ifdef SKIP_HIST
    if (g_pre.exec_content_log != 0 && !sps_hist_used) {
#else
    if (g_pre.exec_content_log != 0) {
#endif
      __CPROVER_assert(0, "CANARY executed-content clause reached");
      for (int i = 1; i < D_N; i++) {
        if (d_lognum[i] < 0) continue;
        wit_row = i;
        __CPROVER_assert(sp_bit(G.xl, i) == sp_bit(sx, i), "C04.content: onexit content runs exactly for the states of the exit set");
        __CPROVER_assert(sp_bit(G.el, i) == sp_bit(se, i), "C04.content: onentry content runs exactly for the states that are entered");
      }
      for (int t = 0; t < D_T; t++) {
        if (d_tlognum[t] < 0) continue;
        wit_row = t;
        __CPROVER_assert(sp_bit(G.tl, t) == sel[t], "C04.content: transition content runs exactly for the transitions of the optimal enabled transition set");
      }
      for (int t = 0; t < D_T; t++) {
        int ps = d_tsrc[t];
        if (sp_proper(ps) || !d_thascontent[t]) continue;
        /* only the first history child of a state is tracked by the H<nn> convention */
        int first = 1;
        for (int j = 1; j < ps; j++) if (d_parent[j] == d_parent[ps] && sp_is_history(j) && sp_is_history(ps)) first = 0;
        if (!first) continue;
        wit_row = t;
        __CPROVER_assert(sp_bit(G.il, ps) == (sp_bit(sps_pseudo, ps) && sp_bit(se, d_parent[ps])),
                         "C04.content: the content of an <initial> transition / a default history transition runs exactly when that transition is taken in a step that enters the parent state");
      }
    }
#endif
#if D_SEQ > 0
    if (G.seq_on) {
      __CPROVER_assert(0, "CANARY executable-content sequence clause reached");
      __CPROVER_assert(G.seq_expect == 0, "C04.content: every handler block that started ran to its end");
      for (int i = 1; i < D_N; i++) {
        wit_row = i;
        if (d_seq_onexit[i]) __CPROVER_assert(G.seq_started[d_seq_onexit[i]] == sp_bit(sx, i), "C04.content: the onexit block of a state runs exactly once if the state is in the exit set, else not at all");
        if (d_seq_onentry[i]) __CPROVER_assert(G.seq_started[d_seq_onentry[i]] == sp_bit(se, i), "C04.content: the onentry block of a state runs exactly once if the state is entered, else not at all");
      }
      for (int t = 0; t < D_T; t++) {
        if (!d_seq_trans[t]) continue;
        wit_row = t;
        if (sp_proper(d_tsrc[t])) __CPROVER_assert(G.seq_started[d_seq_trans[t]] == sel[t], "C04.content: the content of a transition runs exactly once if the transition is taken, else not at all");
        else __CPROVER_assert(G.seq_started[d_seq_trans[t]] == (sp_bit(sps_pseudo, d_tsrc[t]) && sp_bit(se, d_parent[d_tsrc[t]])),
                              "C04.content: the content of an <initial> / default history transition runs exactly once when that transition is taken in a step that enters the parent state, else not at all");
      }
    }
#endif
  }
#endif

  /* C02: Inv is inductive */
  if (g_pre_inv && (g_ret == USCXML_ERR_OK || g_ret == USCXML_ERR_IDLE || g_ret == USCXML_ERR_DONE)) {
    __CPROVER_assert(legal_config(g_ctx.config), "C02.legal: the configuration after the step is a legal configuration (3.11)");
#ifndef SKIP_HIST
    __CPROVER_assert(hist_ok(g_ctx.history), "C02.history: remembered history names states that were simultaneously active below the history's parent");
#endif
    __CPROVER_assert(!(g_ctx.flags & USCXML_CTX_TRANSITION_FOUND), "C04.lifecycle: the TRANSITION_FOUND flag is never left set by a step (part of the inductive invariant)");
    __CPROVER_assert(sp_bit(g_ctx.config, 0), "C02.root: the document root stays active until completion");
    __CPROVER_assert(!(g_pre.flags & USCXML_CTX_INITIALIZED) || !(g_ctx.flags == USCXML_CTX_PRISTINE), "C02.root: an initialised context never becomes pristine again (global script and early data run once)");
  }
}

/* Part A: only the DEQUEUE_EVENT loop (one iteration per ignored event, unbounded) is under proof here:
 * its loop contract (run_genc.py: step_loop_contract) is checked by dfcc with every OTHER loop of the step
 * function cut after one iteration (they lie after the loop and are irrelevant for its invariant). */
void h_loop(void) {
  setup_ctx();
  g_ret = uscxml_step(&g_ctx);
  __CPROVER_assert(0, "CANARY step returns");
}

/* Glue: a state that the loop invariant relates to a valid pre-state is itself a valid pre-state of the
 * same kind, so checking everything after ONE pass of the loop body from EVERY valid pre-state (Part B)
 * covers every later iteration. */
void h_glue(void) {
  setup_ctx();
  uscxml_ctx s0 = g_ctx;
  __CPROVER_assume(s0.flags == USCXML_CTX_PRISTINE || (s0.flags & USCXML_CTX_INITIALIZED));
  uscxml_ctx s = s0;
  /* what the loop may change (its assigns clause), constrained by its invariant */
  s.flags = nondet_uchar();
  __CPROVER_assume((s.flags & 0xFE) == (s0.flags & 0xFE));
  s.event = nondet_bool() ? (void *)&g_event_obj : (void *)0;
  for (int k = 0; k < USCXML_MAX_NR_STATES_BYTES; k++) s.invocations[k] = nondet_uchar();
  __CPROVER_assert(0, "CANARY glue reached");
  __CPROVER_assert(s.machine == &USCXML_MACHINE && s.is_matched != 0 && s.raise_done_event != 0 && s.invoke != 0, "glue: loop-invariant states satisfy the step contract's requires (machine, callbacks)");
  __CPROVER_assert((s0.flags & USCXML_CTX_INITIALIZED) ==> (s.flags & USCXML_CTX_INITIALIZED), "glue: loop-invariant states of an initialised context are initialised contexts");
  int r0 = (s0.flags & USCXML_CTX_INITIALIZED) && !(s0.flags & (USCXML_CTX_FINISHED | USCXML_CTX_TOP_LEVEL_FINAL | USCXML_CTX_TRANSITION_FOUND)) && inv(&s0);
  int r1 = (s.flags & USCXML_CTX_INITIALIZED) && !(s.flags & (USCXML_CTX_FINISHED | USCXML_CTX_TOP_LEVEL_FINAL | USCXML_CTX_TRANSITION_FOUND)) && inv(&s);
  __CPROVER_assert(r0 == r1, "glue: the C02 pre-state predicate (running with Inv) is the same for all states the loop invariant relates");
  __CPROVER_assert(bytes_eq(s.config, s0.config) && bytes_eq(s.history, s0.history), "glue: configuration and history are outside the loop's frame");
}

/* Bounded stand-in for documents with nested histories (Inv is not the representation invariant there, see
 * DESIGN.md C02): REACH_K real steps from the pristine context, every callback answer nondeterministic, at most
 * one ignored event per step; after every step the configuration must be legal.  BOUNDED - never counted as proved. */
#ifndef REACH_K
#define REACH_K 7
#endif
int wit_reach_step;
void h_reach(void) {
  setup_ctx();
  g_ctx.flags = USCXML_CTX_PRISTINE;
  for (int k = 0; k < USCXML_MAX_NR_STATES_BYTES; k++) { g_ctx.config[k] = 0; g_ctx.history[k] = 0; g_ctx.invocations[k] = 0; g_ctx.initialized_data[k] = 0; }
  g_ctx.event = 0;
  for (int s = 0; s < REACH_K; s++) {
    wit_reach_step = s;
    int r = uscxml_step(&g_ctx);
    if (r != USCXML_ERR_OK && r != USCXML_ERR_IDLE) break;
    if (g_ctx.flags & (USCXML_CTX_FINISHED | USCXML_CTX_TOP_LEVEL_FINAL)) break;
    for (int k = 0; k < USCXML_MAX_NR_STATES_BYTES; k++) { wit_post_config[k] = g_ctx.config[k]; wit_post_history[k] = g_ctx.history[k]; }
    __CPROVER_assert(legal_config(g_ctx.config), "C02.reach: every configuration reached within REACH_K steps of initialisation is legal (3.11)");
  }
  __CPROVER_assert(0, "CANARY reach harness ends");
}
