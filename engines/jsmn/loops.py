"""Loop contracts for jsmn.c, supplied through goto-instrument --loop-contracts-file so that
the repository file stays unmodified.  Keyed by function and loop ordinal; 'anchor' is a
regex the source line of that loop must match (checked against --show-loops on every run:
a mismatch is 'loop map out of date', exit 2, never a violation)."""
import json

DELIM = "(js[g_k] == '\\t' || js[g_k] == '\\r' || js[g_k] == '\\n' || js[g_k] == ' ' || js[g_k] == ',' || js[g_k] == ']' || js[g_k] == '}' || js[g_k] == ':')"

def tokwf(k, b):
    t = 'tokens[%s]' % k
    return ("(%(t)s.start >= 0 && (unsigned)%(t)s.start < (%(b)s) && (%(t)s.end == -1 ? (%(t)s.type == 1 || %(t)s.type == 2) : "
            "(%(t)s.start <= %(t)s.end && (unsigned)%(t)s.end <= (%(b)s) && (%(t)s.type == 3 ? (%(t)s.start >= 1 && (unsigned)%(t)s.end < (%(b)s)) : %(t)s.start < %(t)s.end))))") % {'t': t, 'b': b}

_n = [0]
def sizes(b):
    # the bound variable needs a fresh name per use: all predicates of the file share one scope
    _n[0] += 1
    k = 'k%d' % _n[0]
    return ("__CPROVER_forall { int K; (0 <= K && K < MAXT) ==> (K < parser->toknext ==> (tokens[K].size >= 0 && (unsigned)tokens[K].size <= (%s))) }" % b).replace('K', k)

def tokeq_entry(k):
    t = 'tokens[%s]' % k
    return '(' + ' && '.join("%s.%s == __CPROVER_loop_entry(%s.%s)" % (t, f, t, f) for f in ('type', 'start', 'end', 'size')) + ')'

PI = "parser->pos <= g_n && parser->toknext >= 0 && (unsigned long)parser->toknext <= (unsigned long)num_tokens && parser->toksuper >= -1 && parser->toksuper < parser->toknext"

def contracts(maxt):
    SM_P = "parser,jsmn_parse::parser;js,jsmn_parse::js;tokens,jsmn_parse::tokens;num_tokens,jsmn_parse::num_tokens;i,jsmn_parse::1::i;r,jsmn_parse::1::r;token,jsmn_parse::1::token;c,jsmn_parse::1::1::1::c;type,jsmn_parse::1::1::1::type"
    def tq(k):
        return "(tokens[%s].type == 3 ? 1 : 0)" % k
    laminar = ("(tokens[g_t].end == -1 ? (tokens[g_t].start < tokens[g_u].start - %(qu)s) : "
               "((tokens[g_t].end + %(qt)s <= tokens[g_u].start - %(qu)s) || "
               "((tokens[g_t].type == 1 || tokens[g_t].type == 2) && tokens[g_t].start < tokens[g_u].start - %(qu)s && tokens[g_u].end != -1 && tokens[g_u].end + %(qu)s < tokens[g_t].end)))") % {'qt': tq('g_t'), 'qu': tq('g_u')}
    first = ("((g_fresh && (js[0] == '{' || js[0] == '[')) ==> ((parser->pos == 0 && parser->toknext == 0) || "
             "(parser->toknext >= 1 && tokens[0].start == 0 && tokens[0].type == (js[0] == '{' ? 1 : 2))))")
    common = lambda b: [PI, sizes(b), first, "0 <= g_t && g_t < g_u && g_u < MAXT", "(g_t < parser->toknext ==> %s)" % tokwf('g_t', b),
                        "(g_u < parser->toknext ==> (%s && %s))" % (tokwf('g_u', b), laminar),
                        "(g_t >= parser->toknext ==> %s)" % tokeq_entry('g_t')]
    d = {"functions": [
        {"jsmn_parse_string": [
            {"loop_id": "0", "anchor": r"for \(; js\[parser->pos\] != '\\0'; parser->pos\+\+\)",
             "assigns": "parser->pos",
             "invariants": " && ".join([
                 "parser->pos <= g_n", "parser->pos > (unsigned)start", "start >= 0", "(unsigned long)start < g_n",
                 "parser->toknext == __CPROVER_loop_entry(parser->toknext)",
                 "(((unsigned long)start < g_k && g_k < parser->pos) ==> js[g_k] != 0)",
                 "(((unsigned long)start < g_k && g_k < parser->pos && js[g_k] == '\"') ==> js[g_k - 1] == '\\\\')"]),
             "decreases": "g_n - parser->pos",
             "symbol_map": "parser,jsmn_parse_string::parser;js,jsmn_parse_string::js;start,jsmn_parse_string::1::start"}]},
        {"jsmn_parse_primitive": [
            {"loop_id": "0", "anchor": r"for \(; js\[parser->pos\] != '\\0'; parser->pos\+\+\)",
             "assigns": "parser->pos",
             "invariants": " && ".join([
                 "parser->pos <= g_n", "parser->pos >= (unsigned)start", "start >= 0", "(unsigned long)start < g_n",
                 "parser->toknext == __CPROVER_loop_entry(parser->toknext)",
                 "(((unsigned long)start <= g_k && g_k < parser->pos) ==> (js[g_k] >= 32 && js[g_k] < 127 && !%s))" % DELIM]),
             "decreases": "g_n - parser->pos",
             "symbol_map": "parser,jsmn_parse_primitive::parser;js,jsmn_parse_primitive::js;start,jsmn_parse_primitive::1::start"}]},
        {"jsmn_parse": [
            # find the innermost open token and close it
            {"loop_id": "0", "anchor": r"for \(i = parser->toknext - 1; i >= 0; i--\)",
             "assigns": "i, token, parser->toksuper, __CPROVER_object_whole(tokens)",
             "invariants": " && ".join(["-1 <= i", "i < parser->toknext", "parser->pos < g_n",
                                        "((i < g_t && g_t < parser->toknext) ==> tokens[g_t].end != -1)",
                                        "((i < g_u && g_u < parser->toknext) ==> tokens[g_u].end != -1)"] + common("parser->pos")),
             "decreases": "i + 1", "symbol_map": SM_P},
            # find the next open token: new toksuper
            {"loop_id": "1", "anchor": r"for \(; i >= 0; i--\)",
             "assigns": "i, token, parser->toksuper",
             "invariants": " && ".join(["-1 <= i", "i < parser->toknext", "parser->pos < g_n", PI]),
             "decreases": "i + 1", "symbol_map": SM_P},
            # main loop over the input
            {"loop_id": "2", "anchor": r"for \(; js\[parser->pos\] != '\\0'; parser->pos\+\+\)",
             "assigns": "parser->pos, parser->toknext, parser->toksuper, __CPROVER_object_whole(tokens), r, i, token",
             "invariants": " && ".join(common("parser->pos") + [
                 "parser->pos >= __CPROVER_loop_entry(parser->pos)",
                 "parser->toknext >= __CPROVER_loop_entry(parser->toknext)"]),
             "decreases": "g_n - parser->pos", "symbol_map": SM_P},
            # final scan for unclosed tokens
            {"loop_id": "3", "anchor": r"for \(i = parser->toknext - 1; i >= 0; i--\)",
             "assigns": "i",
             "invariants": " && ".join(["-1 <= i", "i < parser->toknext",
                                        "((i < g_t && g_t < parser->toknext) ==> !(tokens[g_t].start != -1 && tokens[g_t].end == -1))"]),
             "decreases": "i + 1", "symbol_map": SM_P}]},
    ]}
    s = json.dumps(d, indent=1).replace('MAXT', str(maxt))
    return json.loads(s)

def write(path, maxt, only=None):
    d = contracts(maxt)
    anchors = {}
    out = {"functions": []}
    for f in d["functions"]:
        for fn, loops in f.items():
            if only and fn not in only:
                continue
            ls = []
            for l in loops:
                anchors[(fn, l["loop_id"])] = l.pop("anchor")
                ls.append(l)
            out["functions"].append({fn: ls})
    with open(path, "w") as fh:
        json.dump(out, fh, indent=1)
    return anchors
