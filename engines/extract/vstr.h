/* vstr: fixed-capacity value-semantics string used as the target of the R3 extraction.
 * It stands for std::string in the extracted C text.  TRUSTED (listed in every evidence file);
 * a differential self-test against std::string runs in setup (sanity only).
 *
 * The preconditions of the std::string operations the repository code uses are ASSERTED here,
 * so the extracted callers are checked against them:
 *   operator[](i): i <= size()      (i == size() yields '\0'; beyond is undefined behaviour)
 *   substr(pos, n): pos <= size()   (else std::out_of_range)
 * What the shim drops: heap allocation (no bad_alloc), locale (the "C" locale is assumed for
 * isspace / case folding; boost::iequals = ASCII case fold).  VSTR_CAP is the bound of the check;
 * exceeding it is reported as "BOUND" (a tool-setup error), never as a violation. */
#ifndef VSTR_H
#define VSTR_H
#include <stddef.h>
#ifndef VSTR_CAP
#define VSTR_CAP 8
#endif
#ifndef __CPROVER
#include <assert.h>
#include <stdio.h>
#include <stdlib.h>
static int vstr_violation;
#define VSTR_REQUIRE(c, msg) do { if (!(c)) { vstr_violation = 1; fprintf(stderr, "shim precondition violated: %s\n", msg); } } while (0)
#define VSTR_BOUND(c, msg) do { if (!(c)) { fprintf(stderr, "BOUND exceeded: %s\n", msg); exit(3); } } while (0)
#else
#define VSTR_REQUIRE(c, msg) __CPROVER_assert(c, msg)
#define VSTR_BOUND(c, msg) __CPROVER_assert(c, "BOUND " msg)
#endif
typedef struct { size_t len; char b[VSTR_CAP + 1]; } vstr;
#define VSTR_NPOS (~(size_t)0)

/* isspace in the "C" locale */
static inline int verif_isspace(int c) { return c == ' ' || c == '\t' || c == '\n' || c == '\v' || c == '\f' || c == '\r'; }

static inline vstr vstr_empty(void) { vstr r; r.len = 0; for (size_t i = 0; i <= VSTR_CAP; i++) r.b[i] = 0; return r; }
static inline size_t vstr_size(const vstr *s) { return s->len; }
static inline char vstr_at(const vstr *s, size_t i) {
  VSTR_REQUIRE(i <= s->len, "std::string::operator[]: index <= size()");
  return i < s->len ? s->b[i] : 0;
}
static inline void vstr_push(vstr *s, char c) {
  VSTR_BOUND(s->len < VSTR_CAP, "vstr capacity");
  if (s->len < VSTR_CAP) { s->b[s->len++] = c; s->b[s->len] = 0; }
}
static inline void vstr_append_lit(vstr *s, const char *lit) { for (size_t i = 0; lit[i]; i++) vstr_push(s, lit[i]); }
static inline void vstr_append(vstr *s, const vstr *t) { for (size_t i = 0; i < t->len; i++) vstr_push(s, t->b[i]); }
static inline vstr vstr_lit(const char *lit) { vstr r = vstr_empty(); vstr_append_lit(&r, lit); return r; }
static inline vstr vstr_substr(const vstr *s, size_t pos, size_t n) {
  vstr r = vstr_empty();
  VSTR_REQUIRE(pos <= s->len, "std::string::substr: pos <= size() (else std::out_of_range)");
  if (pos > s->len) return r;
  size_t m = s->len - pos; if (n < m) m = n;
  for (size_t i = 0; i < m; i++) r.b[i] = s->b[pos + i];
  r.len = m; r.b[m] = 0;
  return r;
}
/* s.find(<one-character string>, pos) */
static inline size_t vstr_find_c(const vstr *s, char c, size_t pos) {
  for (size_t i = pos; i < s->len; i++) if (s->b[i] == c) return i;
  return VSTR_NPOS;
}
/* s.find(t, pos) */
static inline size_t vstr_find(const vstr *s, const vstr *t, size_t pos) {
  if (t->len > s->len) return VSTR_NPOS;
  for (size_t i = pos; i + t->len <= s->len; i++) {
    int eq = 1;
    for (size_t j = 0; j < t->len; j++) if (s->b[i + j] != t->b[j]) { eq = 0; break; }
    if (eq) return i;
  }
  return VSTR_NPOS;
}
/* s.rfind(<one-character string>, pos): last occurrence starting at or before pos */
static inline size_t vstr_rfind_c(const vstr *s, char c, size_t pos) {
  if (s->len == 0) return VSTR_NPOS;
  size_t i = pos < s->len - 1 ? pos : s->len - 1;
  for (size_t n = 0; n <= VSTR_CAP; n++) { if (s->b[i] == c) return i; if (i == 0) break; i--; }
  return VSTR_NPOS;
}
/* s.rfind(t, pos) */
static inline size_t vstr_rfind(const vstr *s, const vstr *t, size_t pos) {
  if (t->len > s->len) return VSTR_NPOS;
  size_t i = s->len - t->len; if (pos < i) i = pos;
  for (size_t n = 0; n <= VSTR_CAP; n++) {
    int eq = 1;
    for (size_t j = 0; j < t->len; j++) if (s->b[i + j] != t->b[j]) { eq = 0; break; }
    if (eq) return i;
    if (i == 0) break;
    i--;
  }
  return VSTR_NPOS;
}
static inline int vstr_compare(const vstr *a, const vstr *b) {
  size_t n = a->len < b->len ? a->len : b->len;
  for (size_t i = 0; i < n; i++) if (a->b[i] != b->b[i]) return (a->b[i] & 0xff) < (b->b[i] & 0xff) ? -1 : 1; /* compared as unsigned char, like char_traits<char>::lt */
  return a->len == b->len ? 0 : (a->len < b->len ? -1 : 1);
}
static inline vstr vstr_substr(const vstr *s, size_t pos, size_t n);
/* a.compare(pos, len, b) */
static inline int vstr_compare3(const vstr *a, size_t pos, size_t len, const vstr *b) { vstr t = vstr_substr(a, pos, len); return vstr_compare(&t, b); }
static inline int vstr_compare3_lit(const vstr *a, size_t pos, size_t len, const char *lit) { vstr t = vstr_substr(a, pos, len); vstr l = vstr_lit(lit); return vstr_compare(&t, &l); }
static inline int vstr_compare_lit(const vstr *a, const char *lit) { vstr l = vstr_lit(lit); return vstr_compare(a, &l); }
static inline char vstr_at_checked(const vstr *s, size_t i) { VSTR_REQUIRE(i < s->len, "std::string::at: index < size() (else std::out_of_range)"); return i < s->len ? s->b[i] : 0; }
static inline char vstr_back(const vstr *s) { VSTR_REQUIRE(s->len > 0, "std::string::back on an empty string is undefined"); return s->len ? s->b[s->len - 1] : 0; }
static inline char vstr_front(const vstr *s) { VSTR_REQUIRE(s->len > 0, "std::string::front on an empty string is undefined"); return s->b[0]; }
static inline size_t vstr_find_first_of(const vstr *s, const char *set, size_t pos) {
  for (size_t i = pos; i < s->len; i++) for (size_t j = 0; set[j]; j++) if (s->b[i] == set[j]) return i;
  return VSTR_NPOS;
}
static inline int vstr_eq(const vstr *a, const vstr *b) {
  if (a->len != b->len) return 0;
  for (size_t i = 0; i < a->len; i++) if (a->b[i] != b->b[i]) return 0;
  return 1;
}
static inline char vstr_lower(char c) { return (c >= 'A' && c <= 'Z') ? (char)(c - 'A' + 'a') : c; }
/* boost::iequals in the "C" locale */
static inline int vstr_ieq(const vstr *a, const vstr *b) {
  if (a->len != b->len) return 0;
  for (size_t i = 0; i < a->len; i++) if (vstr_lower(a->b[i]) != vstr_lower(b->b[i])) return 0;
  return 1;
}
/* boost::trim_copy in the "C" locale */
static inline vstr vstr_trim(const vstr *s) {
  size_t a = 0, b = s->len;
  while (a < b && verif_isspace(s->b[a])) a++;
  while (b > a && verif_isspace(s->b[b - 1])) b--;
  vstr r = vstr_empty();
  for (size_t i = a; i < b; i++) r.b[i - a] = s->b[i];
  r.len = b - a; r.b[r.len] = 0;
  return r;
}
#endif
