"""Shared driver pieces: paths, evidence writing, outcome classification, known findings."""
import json
import os
import re
import subprocess
import sys
import time

VERIF = os.path.dirname(os.path.dirname(os.path.abspath(__file__)))
REPO = os.environ.get('VERIF_REPO', '/repo')
WORK = os.environ.get('VERIF_WORK', os.path.join(VERIF, 'work'))
BUILD = os.environ.get('VERIF_BUILD', os.path.join(VERIF, 'build'))
EVIDENCE = os.environ.get('VERIF_EVIDENCE', os.path.join(VERIF, 'evidence'))
REPLAY = os.path.join(VERIF, 'replay')
NCPU = int(os.environ.get('VERIF_JOBS', os.cpu_count() or 8))


def seed():
    try:
        return int(os.environ.get('VERIF_SEED', '1'))
    except ValueError:
        return 1


def repo_rev():
    try:
        h = subprocess.run(['git', '-C', REPO, 'rev-parse', '--short', 'HEAD'], capture_output=True, text=True).stdout.strip()
        d = subprocess.run(['git', '-C', REPO, 'status', '--porcelain', '--untracked-files=no'], capture_output=True, text=True).stdout.strip()
        return h + ('+dirty' if d else '')
    except Exception:
        return 'unknown'


def load_known():
    p = os.path.join(VERIF, 'KNOWN_FINDINGS.json')
    if not os.path.exists(p):
        return {'findings': [], 'fixed': []}
    with open(p) as f:
        return json.load(f)


class Part(object):
    """Result of one engine run for one property."""

    def __init__(self, engine):
        self.engine = engine
        self.functions = []        # functions under contract (name, file:lines, route)
        self.jobs = []             # per-harness result summaries
        self.obligations = 0       # unbounded obligations
        self.discharged = 0
        self.bounded_obligations = 0
        self.bounded_discharged = 0
        self.bounds = []           # stated bounds
        self.assumptions = []
        self.trusted = []
        self.samples = []
        self.violations = []       # dicts: obligation, replay, reproduced(bool), what
        self.known = []            # strings for KNOWN-FINDING lines
        self.errors = []           # infrastructure problems (exit 2)
        self.extra = {}
        self.solver_s = 0.0
        self.programs = 0
        self.checker_cmds = []

    def add_job(self, r, bounded=False):
        """Account one cbmcrun.verify() result."""
        t = r.get('time', {})
        self.solver_s += t.get('cbmc', 0)
        summ = {'harness': r['name'], 'enforce': r.get('enforce'), 'replace': r.get('replace'),
                'status': r['status'], 'obligations': r['obligations'], 'discharged': r['discharged'],
                'canaries_fired': '%d/%d' % (r['canaries_fired'], r['canaries_total']),
                'time_s': t, 'bounded': bounded, 'classes': r.get('classes', {})}
        if r.get('meta'):
            summ['meta'] = {k: v for k, v in r['meta'].items() if k != 'keep_binaries'}
        self.jobs.append(summ)
        if r.get('checker_cmd') and len(self.checker_cmds) < 3:
            self.checker_cmds.append(r['checker_cmd'])
        if r['status'] != 'ok':
            self.errors.append('%s: %s' % (r['name'], r['reason']))
            return
        if bounded:
            self.bounded_obligations += r['obligations']
            self.bounded_discharged += r['discharged']
        else:
            self.obligations += r['obligations']
            self.discharged += r['discharged']
        for s in r.get('samples', [])[:2]:
            if len(self.samples) < 12:
                self.samples.append('%s :: %s' % (r['name'], s))


def write_replay(prop, name, payload):
    d = os.path.join(WORK, 'replay', prop)
    os.makedirs(d, exist_ok=True)
    p = os.path.join(d, re.sub(r'[^A-Za-z0-9_.-]', '_', name)[:120] + '.json')
    with open(p, 'w') as f:
        json.dump(payload, f, indent=1, default=str)
    return p


def finish(prop, tier, level, parts, t0, explanation, level_keys=None):
    """Write evidence/<prop>.json, print VIOLATION / KNOWN-FINDING lines, return the exit code."""
    os.makedirs(EVIDENCE, exist_ok=True)
    obligations = sum(p.obligations for p in parts)
    discharged = sum(p.discharged for p in parts)
    b_obl = sum(p.bounded_obligations for p in parts)
    b_dis = sum(p.bounded_discharged for p in parts)
    errors = [e for p in parts for e in p.errors]
    violations = [v for p in parts for v in p.violations]
    known = [k for p in parts for k in p.known]
    samples = [s for p in parts for s in p.samples][:20]
    cov = {
        'obligations': obligations,
        'discharged': discharged,
        'bounded_obligations_not_counted_as_proved': b_obl,
        'bounded_discharged': b_dis,
        'checker_cmd': '; '.join(c for p in parts for c in p.checker_cmds[:1])[:4000] or 'n/a',
        'trusted_base': sorted(set(t for p in parts for t in p.trusted)),
        'explanation': explanation,
        'samples': samples or ['(no obligation sampled)'],
        'functions_under_contract': [f for p in parts for f in p.functions],
        'harnesses': [j for p in parts for j in p.jobs],
        'bounds': [b for p in parts for b in p.bounds],
        'solver_time_s': round(sum(p.solver_s for p in parts), 1),
        'back_end': 'CBMC 6.11.0 built-in SAT (MiniSat 2.2.1) via goto-instrument --dfcc contract instrumentation',
        'known_findings_reported': known,
        'infrastructure_errors': errors,
        'repo_rev': repo_rev(),
        'programs': sum(p.programs for p in parts),
        'disagreements_checked': len(violations),
        'failed_obligations': [{'obligation': v.get('obligation'), 'replay': v.get('replay'), 'reproduced': v.get('reproduced'), 'what': str(v.get('what', ''))[:400]} for v in violations],
        'exhaustive': False,
    }
    for p in parts:
        for k, v in p.extra.items():
            cov[p.engine + '.' + k] = v
    if level_keys:
        cov.update(level_keys)
    # generic fallback keys, measured
    cov['evaluations'] = max(1, obligations + b_obl)
    cov['distinct_nontrivial'] = discharged + b_dis
    cov['rule'] = ('one evaluation = one verification condition generated by CBMC for a function under contract '
                   '(contract clause, loop-invariant base/step, decreases, frame, pointer/bounds/overflow check); '
                   'non-trivial = reported SUCCESS by the solver with every canary of its harness reachable')
    ev = {
        'property_id': prop, 'tier': tier, 'seed': seed(), 'level': level, 'coverage': cov,
        'assumptions': sorted(set(a for p in parts for a in p.assumptions)),
        'wall_s': round(time.time() - t0, 1), 'violations': len(violations),
    }
    with open(os.path.join(EVIDENCE, prop + '.json'), 'w') as f:
        json.dump(ev, f, indent=1, default=str)
    for k in known:
        print('KNOWN-FINDING: property=%s %s' % (prop, k))
    for n, v in enumerate(violations):
        if n >= 8:
            print('# ... %d more failed obligations (all listed in %s)' % (len(violations) - n, os.path.join(EVIDENCE, prop + '.json')))
            break
        tail = '' if v.get('reproduced') else ' no-failing-input-found'
        print('# failed obligation: %s -- %s' % (v.get('obligation'), str(v.get('what', ''))[:600].replace('\n', ' ')))
        print('VIOLATION property=%s replay=%s%s' % (prop, v['replay'], tail))
    print('%s tier=%s: %d/%d unbounded obligations discharged, %d/%d bounded, %d violation(s), %d known finding(s), %d infrastructure error(s), %.0fs'
          % (prop, tier, discharged, obligations, b_dis, b_obl, len(violations), len(known), len(errors), time.time() - t0))
    sys.stdout.flush()
    if violations:
        return 1
    if errors:
        for e in errors:
            print('ERROR (not a violation): ' + e[:2000], file=sys.stderr)
        return 2
    return 0
