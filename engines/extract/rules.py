"""Route R3: mechanical extraction of C++ leaf functions to C, re-run from /repo on every check.

The verified text is the function body as written in the repository with a fixed table of
*expression-level* rewrites (std::string operations -> calls of the fixed-capacity shim
vstr.h, stream appends -> vstr appends, exceptions -> verif_throw()).  Control flow,
index arithmetic, comparisons, constants and statement order are copied verbatim.

Soundness guards (all give ExtractionError -> exit 2, never a violation, never a silent pass):
  * anchors: the function signature regex must match exactly once and its body must close;
  * must-cover: after rewriting no C++ residue may remain (no '::', no member call on a string
    variable, no '<<', no 'std'/'boost', no 'throw'/'try'); the result must compile as C;
  * every dropped line (dropped = replaced by nothing) is named by a rule and reported.
"""
import re


class ExtractionError(Exception):
    pass


def strip_comments(text):
    """Remove // and /* */ comments, keep line structure and string/char literals."""
    out = []
    i, n = 0, len(text)
    while i < n:
        c = text[i]
        if c == '"' or c == "'":
            q = c
            j = i + 1
            while j < n and text[j] != q:
                if text[j] == '\\':
                    j += 1
                j += 1
            out.append(text[i:j + 1])
            i = j + 1
        elif text.startswith('//', i):
            j = text.find('\n', i)
            if j < 0:
                j = n
            i = j
        elif text.startswith('/*', i):
            j = text.find('*/', i + 2)
            if j < 0:
                j = n - 2
            out.append('\n' * text.count('\n', i, j + 2))
            i = j + 2
        else:
            out.append(c)
            i += 1
    return ''.join(out)


def match_close(text, i, open_c='(', close_c=')'):
    """text[i] == open_c; returns index of the matching close, skipping literals."""
    assert text[i] == open_c, (text[i:i + 20], open_c)
    depth = 0
    n = len(text)
    j = i
    while j < n:
        c = text[j]
        if c == '"' or c == "'":
            q = c
            j += 1
            while j < n and text[j] != q:
                if text[j] == '\\':
                    j += 1
                j += 1
        elif c == open_c:
            depth += 1
        elif c == close_c:
            depth -= 1
            if depth == 0:
                return j
        j += 1
    raise ExtractionError('unbalanced %s at offset %d' % (open_c, i))


def find_function(path, sig_regex):
    """Returns (first_line, last_line, signature_text, body_text_without_outer_braces) of the one
    function whose signature matches sig_regex (the regex must end right before the '{')."""
    raw = open(path, errors='replace').read()
    text = strip_comments(raw)
    ms = list(re.finditer(sig_regex, text))
    if len(ms) != 1:
        raise ExtractionError('%s: signature /%s/ matched %d times (expected 1)' % (path, sig_regex, len(ms)))
    m = ms[0]
    ob = text.find('{', m.end() - 1)
    if ob < 0 or text[m.end():ob].strip() not in ('',):
        raise ExtractionError('%s: no "{" right after signature /%s/' % (path, sig_regex))
    cb = match_close(text, ob, '{', '}')
    first = text.count('\n', 0, m.start()) + 1
    last = text.count('\n', 0, cb) + 1
    return first, last, m.group(0), text[ob + 1:cb]


def select_preproc_branch(body, keep_true=True):
    """Resolve '#if 1 ... #else ... #endif' / '#if 0' blocks textually (the compiler does the same)."""
    out = []
    stack = []  # (emitting?, seen_else, cond_true)
    emit = True
    for line in body.split('\n'):
        s = line.strip()
        m = re.match(r'#\s*if\s+([01])\s*$', s)
        if m:
            stack.append((emit, m.group(1) == '1'))
            emit = emit and (m.group(1) == '1')
            out.append('')
            continue
        if re.match(r'#\s*else\s*$', s) and stack:
            par, cond = stack[-1]
            emit = par and not cond
            out.append('')
            continue
        if re.match(r'#\s*endif\s*$', s) and stack:
            par, cond = stack.pop()
            emit = par
            out.append('')
            continue
        if s.startswith('#'):
            raise ExtractionError('unsupported preprocessor line in extracted body: ' + s)
        out.append(line if emit else '')
    if stack:
        raise ExtractionError('unterminated #if in extracted body')
    return '\n'.join(out)


def _split_args(s):
    """split top-level commas of an argument string"""
    args, depth, cur, i = [], 0, '', 0
    while i < len(s):
        c = s[i]
        if c in '"\'':
            j = i + 1
            while s[j] != c:
                if s[j] == '\\':
                    j += 1
                j += 1
            cur += s[i:j + 1]
            i = j + 1
            continue
        if c in '([{':
            depth += 1
        elif c in ')]}':
            depth -= 1
        if c == ',' and depth == 0:
            args.append(cur.strip())
            cur = ''
        else:
            cur += c
        i += 1
    if cur.strip() or args:
        args.append(cur.strip())
    return args


class StringRewriter(object):
    """Rewrites std::string expressions over the named string variables to vstr_* calls."""

    def __init__(self, string_vars, stream_vars=()):
        self.sv = set(string_vars)
        self.streams = set(stream_vars)
        self.fired = {}

    def _fire(self, name):
        self.fired[name] = self.fired.get(name, 0) + 1

    def rewrite_expr(self, s):
        """Innermost-first rewriting of member calls / indexing on string variables."""
        changed = True
        guard = 0
        while changed:
            guard += 1
            if guard > 200:
                raise ExtractionError('rewrite does not terminate on: ' + s)
            changed = False
            # member calls  X.method(args)
            for m in re.finditer(r'\b([A-Za-z_]\w*)\s*\.\s*(length|size|substr|find|rfind|compare|at|back|front|find_first_of|reserve|str|c_str|empty)\s*\(', s):
                var, meth = m.group(1), m.group(2)
                if var not in self.sv and var not in self.streams:
                    continue
                op = m.end() - 1
                cl = match_close(s, op)
                args = _split_args(s[op + 1:cl])
                args = [self.rewrite_expr(a) for a in args]
                if meth in ('length', 'size') and not args:
                    rep = 'vstr_size(&%s)' % var
                elif meth == 'empty' and not args:
                    rep = '(vstr_size(&%s) == 0)' % var
                elif meth == 'substr' and len(args) == 2:
                    rep = 'vstr_substr(&%s, %s, %s)' % (var, args[0], args[1])
                elif meth == 'substr' and len(args) == 1:
                    rep = 'vstr_substr(&%s, %s, VSTR_NPOS)' % (var, args[0])
                elif meth == 'find' and len(args) in (1, 2):
                    pos = args[1] if len(args) == 2 else '0'
                    a0 = args[0]
                    if re.match(r'^"(\\.|[^"\\])"$', a0):       # one-character string literal
                        rep = "vstr_find_c(&%s, '%s', %s)" % (var, a0[1:-1].replace("'", "\\'") if a0[1:-1] != "'" else "\\'", pos)
                    elif re.match(r"^'(\\.|[^'\\])'$", a0):
                        rep = 'vstr_find_c(&%s, %s, %s)' % (var, a0, pos)
                    elif a0 in self.sv:
                        rep = 'vstr_find(&%s, &%s, %s)' % (var, a0, pos)
                    else:
                        raise ExtractionError('find() argument not supported: ' + a0)
                elif meth == 'rfind' and len(args) in (1, 2):
                    pos = args[1] if len(args) == 2 else 'VSTR_NPOS'
                    a0 = args[0]
                    if re.match(r'^"(\\.|[^"\\])"$', a0):
                        rep = "vstr_rfind_c(&%s, '%s', %s)" % (var, a0[1:-1], pos)
                    elif re.match(r"^'(\\.|[^'\\])'$", a0):
                        rep = 'vstr_rfind_c(&%s, %s, %s)' % (var, a0, pos)
                    elif a0 in self.sv:
                        rep = 'vstr_rfind(&%s, &%s, %s)' % (var, a0, pos)
                    else:
                        raise ExtractionError('rfind() argument not supported: ' + a0)
                elif meth == 'compare' and len(args) == 1 and args[0] in self.sv:
                    rep = 'vstr_compare(&%s, &%s)' % (var, args[0])
                elif meth == 'compare' and len(args) == 3 and args[2] in self.sv:
                    rep = 'vstr_compare3(&%s, %s, %s, &%s)' % (var, args[0], args[1], args[2])
                elif meth == 'compare' and len(args) == 3 and re.match(r'^"(\\.|[^"\\])*"$', args[2]):
                    rep = 'vstr_compare3_lit(&%s, %s, %s, %s)' % (var, args[0], args[1], args[2])
                elif meth == 'compare' and len(args) == 1 and re.match(r'^"(\\.|[^"\\])*"$', args[0]):
                    rep = 'vstr_compare_lit(&%s, %s)' % (var, args[0])
                elif meth == 'at' and len(args) == 1:
                    rep = 'vstr_at_checked(&%s, %s)' % (var, args[0])
                elif meth == 'back' and not args:
                    rep = 'vstr_back(&%s)' % var
                elif meth == 'front' and not args:
                    rep = 'vstr_front(&%s)' % var
                elif meth == 'find_first_of' and len(args) in (1, 2) and re.match(r'^"(\\.|[^"\\])*"$', args[0]):
                    rep = 'vstr_find_first_of(&%s, %s, %s)' % (var, args[0], args[1] if len(args) == 2 else '0')
                elif meth == 'reserve':
                    rep = '((void)0)'
                elif meth == 'str' and not args and var in self.streams:
                    rep = var
                else:
                    raise ExtractionError('unsupported string method %s.%s(%s)' % (var, meth, ','.join(args)))
                self._fire(meth)
                s = s[:m.start()] + rep + s[cl + 1:]
                changed = True
                break
            if changed:
                continue
            # indexing  X[expr]
            for m in re.finditer(r'\b([A-Za-z_]\w*)\s*\[', s):
                var = m.group(1)
                if var not in self.sv:
                    continue
                if re.search(r'(?<!&)&\s*$', s[:m.start()]):
                    continue  # address-of (as in the rewritten form vstr_at(&X ...), not the tail of a logical '&&'
                op = m.end() - 1
                cl = match_close(s, op, '[', ']')
                inner = self.rewrite_expr(s[op + 1:cl])
                s = s[:m.start()] + 'vstr_at(&%s, %s)' % (var, inner) + s[cl + 1:]
                self._fire('index')
                changed = True
                break
            if changed:
                continue
            m = re.search(r'\b(?:boost::)?iequals\s*\(', s)
            if m:
                op = m.end() - 1
                cl = match_close(s, op)
                args = _split_args(s[op + 1:cl])
                if len(args) != 2 or args[0] not in self.sv or args[1] not in self.sv:
                    raise ExtractionError('iequals arguments not supported: ' + s[op:cl + 1])
                s = s[:m.start()] + 'vstr_ieq(&%s, &%s)' % (args[0], args[1]) + s[cl + 1:]
                self._fire('iequals')
                changed = True
                continue
            # X == Y / X != Y on two string variables
            m = re.search(r'\b([A-Za-z_]\w*)\s*(==|!=)\s*([A-Za-z_]\w*)\b', s)
            if m and m.group(1) in self.sv and m.group(3) in self.sv:
                rep = '%svstr_eq(&%s, &%s)' % ('!' if m.group(2) == '!=' else '', m.group(1), m.group(3))
                s = s[:m.start()] + rep + s[m.end():]
                self._fire('operator==')
                changed = True
                continue
            # X == "literal" / X != "literal" / "literal" == X
            m = re.search(r'\b([A-Za-z_]\w*)\s*(==|!=)\s*("(?:\\.|[^"\\])*")', s)
            if m and m.group(1) in self.sv:
                s = s[:m.start()] + '(vstr_compare_lit(&%s, %s) %s 0)' % (m.group(1), m.group(3), m.group(2)) + s[m.end():]
                self._fire('operator==lit')
                changed = True
                continue
            m = re.search(r'("(?:\\.|[^"\\])*")\s*(==|!=)\s*([A-Za-z_]\w*)\b', s)
            if m and m.group(3) in self.sv:
                s = s[:m.start()] + '(vstr_compare_lit(&%s, %s) %s 0)' % (m.group(3), m.group(1), m.group(2)) + s[m.end():]
                self._fire('operator==lit')
                changed = True
                continue
        s = s.replace('std::string::npos', 'VSTR_NPOS')
        s = re.sub(r'\bstd::string::size_type\b', 'size_t', s)
        s = re.sub(r'\bisspace\s*\(', 'verif_isspace(', s)
        return s

    def rewrite_line(self, line):
        s = line
        st = s.strip()
        ind = s[:len(s) - len(s.lstrip())]
        if not st:
            return ''
        # declarations
        m = re.match(r'^std::string\s+([A-Za-z_]\w*)\s*;$', st)
        if m:
            self.sv.add(m.group(1))
            self._fire('decl')
            return ind + 'vstr %s = vstr_empty();' % m.group(1)
        m = re.match(r'^std::string\s+([A-Za-z_]\w*)\s*=\s*(.*);$', st)
        if m:
            self.sv.add(m.group(1))
            self._fire('decl')
            return ind + 'vstr %s = %s;' % (m.group(1), self.rewrite_value(m.group(2)))
        m = re.match(r'^std::(?:o?string)?stream\s+([A-Za-z_]\w*)\s*;$', st)
        if m:
            self.streams.add(m.group(1))
            self.sv.add(m.group(1))
            self._fire('stream-decl')
            return ind + 'vstr %s = vstr_empty();' % m.group(1)
        # stream append:  os << a << b;
        m = re.match(r'^([A-Za-z_]\w*)\s*<<\s*(.*);$', st)
        if m and m.group(1) in self.streams:
            parts = self._split_shift(m.group(2))
            outs = []
            for p in parts:
                outs.append(self._append(m.group(1), p))
            self._fire('stream<<')
            return ind + ' '.join(outs)
        # string append:  X += 'c' | "lit" | expr
        m = re.match(r'^([A-Za-z_]\w*)\s*\+=\s*(.*);$', st)
        if m and m.group(1) in self.sv:
            self._fire('+=')
            return ind + self._append(m.group(1), m.group(2))
        # string assignment of a literal:  X = "";
        m = re.match(r'^([A-Za-z_]\w*)\s*=\s*"((?:\\.|[^"\\])*)"\s*;$', st)
        if m and m.group(1) in self.sv:
            self._fire('assign-literal')
            if m.group(2) == '':
                return ind + '%s = vstr_empty();' % m.group(1)
            return ind + '%s = vstr_lit("%s");' % (m.group(1), m.group(2))
        return ind + self.rewrite_expr(st)

    def rewrite_value(self, v):
        v = v.strip()
        m = re.match(r'^"((?:\\.|[^"\\])*)"$', v)
        if m:
            return 'vstr_empty()' if m.group(1) == '' else 'vstr_lit(%s)' % v
        return self.rewrite_expr(v)

    def _split_shift(self, s):
        parts, depth, cur, i = [], 0, '', 0
        while i < len(s):
            c = s[i]
            if c in '"\'':
                j = i + 1
                while s[j] != c:
                    if s[j] == '\\':
                        j += 1
                    j += 1
                cur += s[i:j + 1]
                i = j + 1
                continue
            if c in '([':
                depth += 1
            elif c in ')]':
                depth -= 1
            if depth == 0 and s.startswith('<<', i):
                parts.append(cur.strip())
                cur = ''
                i += 2
                continue
            cur += c
            i += 1
        parts.append(cur.strip())
        return parts

    def _append(self, var, p):
        p = p.strip()
        if re.match(r'^"(\\.|[^"\\])*"$', p):
            return 'vstr_append_lit(&%s, %s);' % (var, p)
        if re.match(r"^'(\\.|[^'\\])'$", p):
            return 'vstr_push(&%s, %s);' % (var, p)
        e = self.rewrite_expr(p)
        if re.match(r'^vstr_at\(', e):
            return 'vstr_push(&%s, %s);' % (var, e)
        if p in self.sv:
            return 'vstr_append(&%s, &%s);' % (var, p)
        if re.match(r'^(vstr_substr|vstr_lit|json_escape|json_unescape)\(', e):
            return '{ vstr t_ = %s; vstr_append(&%s, &t_); }' % (e, var)
        raise ExtractionError('unsupported append operand: ' + p)


RESIDUE = [r'::', r'\bstd\b', r'\bboost\b', r'<<(?!=)\s*"', r'\bthrow\b', r'\btry\b', r'\bcatch\b', r'\bnew\b',
           r'\bdelete\b', r'\btemplate\b', r'\bauto\b', r'\bnullptr\b']


def check_residue(ctext, string_vars, what):
    for rx in RESIDUE:
        m = re.search(rx, strip_literals(ctext))
        if m:
            line = ctext[:m.start()].count('\n')
            raise ExtractionError('%s: C++ residue /%s/ left after rewriting near: %s' % (what, rx, strip_literals(ctext).split('\n')[line].strip()))
    for v in string_vars:
        m = re.search(r'\b%s\s*\.\s*\w+' % re.escape(v), strip_literals(ctext))
        if m:
            raise ExtractionError('%s: unhandled member access on string variable: %s' % (what, m.group(0)))
        m = re.search(r'(?<![&\w])%s\s*\[' % re.escape(v), strip_literals(ctext))
        if m:
            raise ExtractionError('%s: unhandled indexing of string variable: %s' % (what, m.group(0)))


def strip_literals(text):
    """blank out the contents of string/char literals (same length)"""
    out = []
    i, n = 0, len(text)
    while i < n:
        c = text[i]
        if c in '"\'':
            j = i + 1
            while j < n and text[j] != c:
                if text[j] == '\\':
                    j += 1
                j += 1
            out.append(c + ' ' * (j - i - 1) + c)
            i = j + 1
        else:
            out.append(c)
            i += 1
    return ''.join(out)
