#!/bin/sh
# Offline setup: nothing to download.  Creates the work dir and (if missing) configures the
# out-of-tree build of /repo used by the generated-C engines; checks rebuild on demand anyway.
set -e
cd "$(dirname "$0")"
mkdir -p work evidence
command -v cbmc >/dev/null && command -v goto-cc >/dev/null && command -v goto-instrument >/dev/null
if [ -x lib/ensure_build.sh ]; then lib/ensure_build.sh || true; fi
echo setup ok
