#!/bin/sh
# Offline setup: nothing to download.  Creates the work dir and the out-of-tree build of /repo's working
# tree used by the generated-C engines and the native replays (checks re-run the incremental build anyway).
set -e
cd "$(dirname "$0")"
mkdir -p work evidence
command -v cbmc >/dev/null && command -v goto-cc >/dev/null && command -v goto-instrument >/dev/null
lib/ensure_build.sh uscxml-transform test-state-pass
echo setup ok
