/* One harness entry per function under contract.  The arguments are left uninitialised:
 * under --enforce-contract the requires clauses (is_fresh etc.) build the pre-state.
 * CANARY assertions must FAIL: they show that the precondition is satisfiable and that each
 * outcome is reachable (vacuity guard). */
#include "contracts.h"
#include JSMN_C

size_t nondet_size_t(void);
int nondet_int(void);
/* ghost values are arbitrary: every proof holds for all of them */
#define GHOSTS() do { g_n = nondet_size_t(); g_k = nondet_size_t(); g_t = nondet_int(); g_u = nondet_int(); g_fresh = nondet_int(); } while (0)

void h_jsmn_alloc_token(void) {
  GHOSTS();
  jsmn_parser *p; jsmntok_t *t; size_t nt;
  jsmntok_t *r = jsmn_alloc_token(p, t, nt);
  __CPROVER_assert(0, "CANARY returns");
  if (r) __CPROVER_assert(0, "CANARY non-null"); else __CPROVER_assert(0, "CANARY null");
}
void h_jsmn_fill_token(void) {
  GHOSTS();
  jsmntok_t *t; jsmntype_t ty; int s, e;
  jsmn_fill_token(t, ty, s, e);
  __CPROVER_assert(0, "CANARY returns");
}
void h_jsmn_parse_string(void) {
  GHOSTS();
  jsmn_parser *p; const char *js; jsmntok_t *t; size_t nt;
  jsmnerr_t r = jsmn_parse_string(p, js, t, nt);
  __CPROVER_assert(0, "CANARY returns");
  if (r == JSMN_SUCCESS) __CPROVER_assert(0, "CANARY success");
  if (r == JSMN_ERROR_NOMEM) __CPROVER_assert(0, "CANARY nomem");
  if (r == JSMN_ERROR_INVAL) __CPROVER_assert(0, "CANARY inval");
  if (r == JSMN_ERROR_PART) __CPROVER_assert(0, "CANARY part");
}
void h_jsmn_parse_primitive(void) {
  GHOSTS();
  jsmn_parser *p; const char *js; jsmntok_t *t; size_t nt;
  jsmnerr_t r = jsmn_parse_primitive(p, js, t, nt);
  __CPROVER_assert(0, "CANARY returns");
  if (r == JSMN_SUCCESS) __CPROVER_assert(0, "CANARY success");
  if (r == JSMN_ERROR_NOMEM) __CPROVER_assert(0, "CANARY nomem");
  if (r == JSMN_ERROR_INVAL) __CPROVER_assert(0, "CANARY inval");
}
void h_jsmn_parse(void) {
  GHOSTS();
  jsmn_parser *p; const char *js; jsmntok_t *t; unsigned int nt;
  jsmnerr_t r = jsmn_parse(p, js, t, nt);
  __CPROVER_assert(0, "CANARY returns");
  if (r == JSMN_SUCCESS) __CPROVER_assert(0, "CANARY success");
  if (r == JSMN_ERROR_NOMEM) __CPROVER_assert(0, "CANARY nomem");
  if (r == JSMN_ERROR_INVAL) __CPROVER_assert(0, "CANARY inval");
  if (r == JSMN_ERROR_PART) __CPROVER_assert(0, "CANARY part");
}
void h_jsmn_init(void) {
  GHOSTS();
  jsmn_parser *p;
  jsmn_init(p);
  __CPROVER_assert(0, "CANARY returns");
}
