/* Contracts for /repo/contrib/src/jsmn/jsmn.c (route R1: the file is #included unmodified
 * after these declarations; CBMC attaches a contract to a function from any declaration).
 *
 * Ghost state (globals of the harness translation unit, never written by jsmn.c):
 *   g_n  some index with js[g_n] == 0 (so the first NUL is at or before g_n), g_n <= MAXN
 *   g_k  arbitrary byte index   - postconditions over "every byte of the token"
 *   g_t  arbitrary token index  - postconditions over "every token"
 * MAXN / MAXT bound the *size of the objects* CBMC allocates for js / tokens; no loop is
 * unwound, every loop is closed by a loop contract (loops.py).
 */
#include <stdlib.h>
#include "jsmn.h"
#ifndef MAXN
#define MAXN 4096
#endif
#ifndef MAXT
#define MAXT 64
#endif
size_t g_n;
size_t g_k;
int g_t;
int g_u;  /* second arbitrary token index, g_t < g_u: postconditions over every PAIR of tokens */
int g_fresh; /* ghost flag: this call starts a parse from scratch (pos == 0, toknext == 0), as Data::fromJSON does */

/* parser invariant */
/* The token array object has MAXT elements and num_tokens <= MAXT is symbolic: for num_tokens == MAXT the array
 * has EXACTLY num_tokens elements (the jsmn API), so any read or write of tokens[num_tokens] is an out-of-bounds
 * failure; for smaller budgets the contracts demand that tokens at index >= toknext are never changed.
 * (An object of symbolic size num_tokens * sizeof(jsmntok_t) was tried: CBMC did not finish in 13 min.) */
#define TOKENS_BYTES(nt) (MAXT * sizeof(jsmntok_t))

/* index of the next free token, clamped to 0 when the budget is exhausted (no conditional expression inside old()) */
#define NEXT_IDX(p, nt) ((p)->toknext * ((size_t)(p)->toknext < (size_t)(nt)))

#define PI(p, nt) ((p)->pos <= g_n && (p)->toknext >= 0 && (size_t)(p)->toknext <= (size_t)(nt) && (p)->toksuper >= -1 && (p)->toksuper < (p)->toknext)

static jsmntok_t *jsmn_alloc_token(jsmn_parser *parser, jsmntok_t *tokens, size_t num_tokens)
__CPROVER_requires(__CPROVER_is_fresh(parser, sizeof(*parser)))
__CPROVER_requires(__CPROVER_is_fresh(tokens, TOKENS_BYTES(num_tokens)))
__CPROVER_requires(num_tokens <= MAXT && parser->toknext >= 0 && (size_t)parser->toknext <= num_tokens)
__CPROVER_assigns(parser->toknext)
__CPROVER_assigns((size_t)parser->toknext < num_tokens: tokens[NEXT_IDX(parser, num_tokens)])
__CPROVER_ensures(parser->pos == __CPROVER_old(parser->pos) && parser->toksuper == __CPROVER_old(parser->toksuper))
__CPROVER_ensures(__CPROVER_old((size_t)parser->toknext) == num_tokens ==> (__CPROVER_return_value == NULL && parser->toknext == __CPROVER_old(parser->toknext)))
__CPROVER_ensures(__CPROVER_old((size_t)parser->toknext) < num_tokens ==> (__CPROVER_return_value == &tokens[__CPROVER_old(parser->toknext)] && parser->toknext == __CPROVER_old(parser->toknext) + 1 && __CPROVER_return_value->start == -1 && __CPROVER_return_value->end == -1 && __CPROVER_return_value->size == 0))
__CPROVER_ensures(__CPROVER_old((size_t)parser->toknext) < num_tokens ==> __CPROVER_return_value->type == __CPROVER_old(tokens[NEXT_IDX(parser, num_tokens)].type))
;

static void jsmn_fill_token(jsmntok_t *token, jsmntype_t type, int start, int end)
__CPROVER_requires(__CPROVER_is_fresh(token, sizeof(*token)))
__CPROVER_assigns(*token)
__CPROVER_ensures(token->type == type && token->start == start && token->end == end && token->size == 0)
;

/* tokens are ordered by start and their extents are laminar (a later token lies behind an earlier closed one or
 * strictly inside an earlier container; a string token's quotes belong to its extent): what Data::fromJSON walks on */
#define TQ(t) ((t).type == JSMN_STRING ? 1 : 0)
#define LAMINAR(a, b) ((a).end == -1 \
  ? ((a).start < (b).start - TQ(b)) \
  : (((a).end + TQ(a) <= (b).start - TQ(b)) || \
     (((a).type == JSMN_OBJECT || (a).type == JSMN_ARRAY) && (a).start < (b).start - TQ(b) && (b).end != -1 && (b).end + TQ(b) < (a).end)))
/* a parse from scratch of a text that begins with '{' or '[': token 0, once handed out, is that container */
#define FIRST_OK(p, js, toks) ((g_fresh && ((js)[0] == '{' || (js)[0] == '[')) ==> \
  (((p)->pos == 0 && (p)->toknext == 0) || ((p)->toknext >= 1 && (toks)[0].start == 0 && (toks)[0].type == ((js)[0] == '{' ? JSMN_OBJECT : JSMN_ARRAY))))
#define TOKEQ_OLD(toks, k) ((toks)[k].type == __CPROVER_old((toks)[k].type) && (toks)[k].start == __CPROVER_old((toks)[k].start) && (toks)[k].end == __CPROVER_old((toks)[k].end) && (toks)[k].size == __CPROVER_old((toks)[k].size))

/* the next free token (index toknext, unchanged on failure) keeps its contents */
#define NEXT_UNTOUCHED(p, toks) ((toks)[(p)->toknext].type == __CPROVER_old((toks)[NEXT_IDX(p, num_tokens)].type) && (toks)[(p)->toknext].start == __CPROVER_old((toks)[NEXT_IDX(p, num_tokens)].start) && (toks)[(p)->toknext].end == __CPROVER_old((toks)[NEXT_IDX(p, num_tokens)].end) && (toks)[(p)->toknext].size == __CPROVER_old((toks)[NEXT_IDX(p, num_tokens)].size))

#define ESC_OK(c) ((c) == '\"' || (c) == '/' || (c) == '\\' || (c) == 'b' || (c) == 'f' || (c) == 'r' || (c) == 'n' || (c) == 't' || (c) == 'u')

static jsmnerr_t jsmn_parse_string(jsmn_parser *parser, const char *js, jsmntok_t *tokens, size_t num_tokens)
__CPROVER_requires(__CPROVER_is_fresh(parser, sizeof(*parser)))
__CPROVER_requires(__CPROVER_is_fresh(js, MAXN + 1))
__CPROVER_requires(__CPROVER_is_fresh(tokens, TOKENS_BYTES(num_tokens)))
__CPROVER_requires(g_n <= MAXN && js[g_n] == 0 && num_tokens <= MAXT)
__CPROVER_requires(PI(parser, num_tokens) && js[parser->pos] == '\"')
__CPROVER_assigns(parser->pos, parser->toknext)
__CPROVER_assigns((size_t)parser->toknext < num_tokens: tokens[NEXT_IDX(parser, num_tokens)])
__CPROVER_ensures(PI(parser, num_tokens) && parser->toksuper == __CPROVER_old(parser->toksuper))
__CPROVER_ensures(__CPROVER_return_value == JSMN_SUCCESS || __CPROVER_return_value == JSMN_ERROR_NOMEM || __CPROVER_return_value == JSMN_ERROR_INVAL || __CPROVER_return_value == JSMN_ERROR_PART)
__CPROVER_ensures(__CPROVER_return_value != JSMN_SUCCESS ==> (parser->pos == __CPROVER_old(parser->pos) && parser->toknext == __CPROVER_old(parser->toknext)))
__CPROVER_ensures(__CPROVER_return_value == JSMN_ERROR_NOMEM ==> __CPROVER_old((size_t)parser->toknext) == num_tokens)
__CPROVER_ensures(__CPROVER_return_value == JSMN_SUCCESS ==> (
    parser->toknext == __CPROVER_old(parser->toknext) + 1 && parser->pos > __CPROVER_old(parser->pos) && parser->pos < g_n &&
    js[parser->pos] == '\"' &&
    tokens[parser->toknext - 1].type == JSMN_STRING && tokens[parser->toknext - 1].size == 0 &&
    tokens[parser->toknext - 1].start == (int)__CPROVER_old(parser->pos) + 1 &&
    tokens[parser->toknext - 1].end == (int)parser->pos))
/* ghost-index postconditions over the token's bytes (g_k arbitrary): no NUL inside the token;
 * every quote inside the token is preceded by a backslash */
__CPROVER_ensures((__CPROVER_return_value == JSMN_SUCCESS && __CPROVER_old(parser->pos) < g_k && g_k < parser->pos) ==> js[g_k] != 0)
__CPROVER_ensures((__CPROVER_return_value == JSMN_SUCCESS && __CPROVER_old(parser->pos) < g_k && g_k < parser->pos && js[g_k] == '\"') ==> js[g_k - 1] == '\\')
__CPROVER_ensures((__CPROVER_return_value != JSMN_SUCCESS && (size_t)parser->toknext < num_tokens) ==> NEXT_UNTOUCHED(parser, tokens))
;

#define PRIM_DELIM(c) ((c) == '\t' || (c) == '\r' || (c) == '\n' || (c) == ' ' || (c) == ',' || (c) == ']' || (c) == '}' || (c) == ':')

/* precondition "js[pos] is no delimiter and not NUL" is derived from the only call site,
 * the default: arm of jsmn_parse; without it pos-- can wrap below 0 at offset 0. */
static jsmnerr_t jsmn_parse_primitive(jsmn_parser *parser, const char *js, jsmntok_t *tokens, size_t num_tokens)
__CPROVER_requires(__CPROVER_is_fresh(parser, sizeof(*parser)))
__CPROVER_requires(__CPROVER_is_fresh(js, MAXN + 1))
__CPROVER_requires(__CPROVER_is_fresh(tokens, TOKENS_BYTES(num_tokens)))
__CPROVER_requires(g_n <= MAXN && js[g_n] == 0 && num_tokens <= MAXT)
__CPROVER_requires(PI(parser, num_tokens) && js[parser->pos] != 0 && !PRIM_DELIM(js[parser->pos]))
__CPROVER_assigns(parser->pos, parser->toknext)
__CPROVER_assigns((size_t)parser->toknext < num_tokens: tokens[NEXT_IDX(parser, num_tokens)])
__CPROVER_ensures(PI(parser, num_tokens) && parser->toksuper == __CPROVER_old(parser->toksuper))
__CPROVER_ensures(__CPROVER_return_value == JSMN_SUCCESS || __CPROVER_return_value == JSMN_ERROR_NOMEM || __CPROVER_return_value == JSMN_ERROR_INVAL)
__CPROVER_ensures(__CPROVER_return_value != JSMN_SUCCESS ==> (parser->pos == __CPROVER_old(parser->pos) && parser->toknext == __CPROVER_old(parser->toknext)))
__CPROVER_ensures(__CPROVER_return_value == JSMN_ERROR_NOMEM ==> __CPROVER_old((size_t)parser->toknext) == num_tokens)
__CPROVER_ensures(__CPROVER_return_value == JSMN_SUCCESS ==> (
    parser->toknext == __CPROVER_old(parser->toknext) + 1 && parser->pos >= __CPROVER_old(parser->pos) && parser->pos < g_n &&
    (js[parser->pos + 1] == 0 || PRIM_DELIM(js[parser->pos + 1])) &&
    tokens[parser->toknext - 1].type == JSMN_PRIMITIVE && tokens[parser->toknext - 1].size == 0 &&
    tokens[parser->toknext - 1].start == (int)__CPROVER_old(parser->pos) &&
    tokens[parser->toknext - 1].end == (int)parser->pos + 1))
/* every byte of the primitive is printable ASCII and no delimiter */
__CPROVER_ensures((__CPROVER_return_value == JSMN_SUCCESS && __CPROVER_old(parser->pos) <= g_k && g_k <= parser->pos) ==> (js[g_k] >= 32 && js[g_k] < 127 && !PRIM_DELIM(js[g_k])))
__CPROVER_ensures((__CPROVER_return_value != JSMN_SUCCESS && (size_t)parser->toknext < num_tokens) ==> NEXT_UNTOUCHED(parser, tokens))
;

/* token well-formed w.r.t. the consumed prefix [0,b): it begins inside it; an open token (end == -1) is a container; a
 * closed token has its extent inside [0,b], is non-empty unless it is a string, and a string token is preceded by its
 * opening and followed by its closing quote inside the prefix (so end >= 1 for every closed token) */
#define TOKWF(t, b) ((t).start >= 0 && (unsigned)(t).start < (b) && \
  ((t).end == -1 ? ((t).type == JSMN_OBJECT || (t).type == JSMN_ARRAY) \
                 : ((t).start <= (t).end && (unsigned)(t).end <= (b) && \
                    ((t).type == JSMN_STRING ? ((t).start >= 1 && (unsigned)(t).end < (b)) : (t).start < (t).end))))
/* every allocated token's child count is bounded by the bytes consumed (so size++ cannot overflow) */
#define SIZES(p, toks) __CPROVER_forall { int k; (0 <= k && k < MAXT) ==> (k < (p)->toknext ==> ((toks)[k].size >= 0 && (unsigned)(toks)[k].size <= (p)->pos)) }

jsmnerr_t jsmn_parse(jsmn_parser *parser, const char *js, jsmntok_t *tokens, unsigned int num_tokens)
__CPROVER_requires(__CPROVER_is_fresh(parser, sizeof(*parser)))
__CPROVER_requires(__CPROVER_is_fresh(js, MAXN + 1))
__CPROVER_requires(__CPROVER_is_fresh(tokens, TOKENS_BYTES(num_tokens)))
__CPROVER_requires(g_n <= MAXN && js[g_n] == 0 && num_tokens <= MAXT)
__CPROVER_requires(PI(parser, num_tokens))
__CPROVER_requires(SIZES(parser, tokens))
__CPROVER_requires(0 <= g_t && g_t < g_u && g_u < MAXT)
__CPROVER_requires(g_fresh ==> (parser->pos == 0 && parser->toknext == 0))
__CPROVER_requires(g_t < parser->toknext ==> TOKWF(tokens[g_t], parser->pos))
__CPROVER_requires(g_u < parser->toknext ==> (TOKWF(tokens[g_u], parser->pos) && LAMINAR(tokens[g_t], tokens[g_u])))
__CPROVER_assigns(parser->pos, parser->toknext, parser->toksuper, __CPROVER_object_whole(tokens))
__CPROVER_ensures(PI(parser, num_tokens))
__CPROVER_ensures(parser->pos >= __CPROVER_old(parser->pos) && parser->toknext >= __CPROVER_old(parser->toknext))
__CPROVER_ensures(__CPROVER_return_value == JSMN_SUCCESS || __CPROVER_return_value == JSMN_ERROR_NOMEM || __CPROVER_return_value == JSMN_ERROR_INVAL || __CPROVER_return_value == JSMN_ERROR_PART)
__CPROVER_ensures(SIZES(parser, tokens))
/* every token handed out so far has its extent inside the consumed input */
__CPROVER_ensures(g_t < parser->toknext ==> TOKWF(tokens[g_t], parser->pos))
/* token 0 of a parse from scratch is the opening container of the text */
__CPROVER_ensures(FIRST_OK(parser, js, tokens))
/* every pair of tokens handed out so far is ordered and laminar */
__CPROVER_ensures(g_u < parser->toknext ==> (TOKWF(tokens[g_u], parser->pos) && LAMINAR(tokens[g_t], tokens[g_u])))
/* tokens not handed out are untouched: the zeroed sentinel Data::fromJSON relies on survives */
__CPROVER_ensures(g_t >= parser->toknext ==> TOKEQ_OLD(tokens, g_t))
/* success: whole input consumed and no token left open */
__CPROVER_ensures(__CPROVER_return_value == JSMN_SUCCESS ==> js[parser->pos] == 0)
__CPROVER_ensures((__CPROVER_return_value == JSMN_SUCCESS && g_t < parser->toknext) ==> (0 <= tokens[g_t].start && tokens[g_t].start <= tokens[g_t].end && (unsigned)tokens[g_t].end <= parser->pos))
__CPROVER_ensures(__CPROVER_return_value == JSMN_ERROR_NOMEM ==> (size_t)parser->toknext == (size_t)num_tokens)
;

void jsmn_init(jsmn_parser *parser)
__CPROVER_requires(__CPROVER_is_fresh(parser, sizeof(*parser)))
__CPROVER_assigns(*parser)
__CPROVER_ensures(parser->pos == 0 && parser->toknext == 0 && parser->toksuper == -1)
;
