#!/bin/bash
# usage: seed_eval_genc.sh <patch.diff> <out-prefix> [tier] -- applies the patch to /repo, runs the three genc checks, reverts.
PATCH=$1; OUT=$2; TIER=${3:-quick}
cd /repo || exit 2
if [ -n "$(git status --porcelain --untracked-files=no)" ]; then echo "/repo not clean"; exit 2; fi
git apply "$PATCH" || { echo "patch does not apply to /repo"; exit 2; }
cd /verif
for P in C05 C04 C02; do ./check $P --tier $TIER > "$OUT.$P.txt" 2>&1; echo "check $P rc=$?  violations=$(grep -c '^VIOLATION' "$OUT.$P.txt") $(grep '^# failed' "$OUT.$P.txt" | head -1 | cut -c1-260)"; done
git -C /repo checkout -q -- .
