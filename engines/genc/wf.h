/* Inv(ctx) for C02, transcribed from Recommendation 3.11 ("Legal State Configurations") over the
 * document facts d_parent / d_kind only - never over the emitted children/completion/ancestors/exit_set
 * columns, so that a wrong table cannot hide behind itself. */
#ifndef WF_H
#define WF_H

/* legal(config): root active; only proper states; parent of an active state active; an active compound
 * state has exactly one active child state; an active parallel state has all child states active
 * (hence at least one atomic state is active); no bit beyond nr_states */
static int legal_config(const unsigned char *cfg) {
  if (!sp_bit(cfg, 0)) return 0;
  for (int i = 0; i < 8 * USCXML_MAX_NR_STATES_BYTES; i++) {
    if (!sp_bit(cfg, i)) continue;
    if (i >= D_N) return 0;
    if (!sp_proper(i)) return 0;
    if (i > 0 && !sp_bit(cfg, d_parent[i])) return 0;
  }
  for (int i = 0; i < D_N; i++) {
    if (!sp_bit(cfg, i)) continue;
    if (sp_compound(i)) {
      int n = 0;
      for (int j = 1; j < D_N; j++) if (sp_child(j, i) && sp_proper(j) && sp_bit(cfg, j)) n++;
      if (n != 1) return 0;
    } else if (d_kind[i] == K_PARALLEL) {
      for (int j = 1; j < D_N; j++) if (sp_child(j, i) && sp_proper(j) && !sp_bit(cfg, j)) return 0;
    }
  }
  return 1;
}

/* the part of a bitset that lies strictly below state p, as a legal PARTIAL configuration rooted at p:
 * p itself is taken as active; downward closed; compound -> exactly one child, parallel -> all children */
static int legal_below(const unsigned char *set, int p, int only_children) {
  for (int i = 1; i < D_N; i++) {
    if (!sp_bit(set, i) || !sp_desc(i, p)) continue;
    if (!sp_proper(i)) return 0;
    if (only_children && d_parent[i] != p) continue;
    if (d_parent[i] != p && !sp_bit(set, d_parent[i])) return 0;
  }
  for (int i = 0; i < D_N; i++) {
    if (i != p && !(sp_bit(set, i) && sp_desc(i, p))) continue;
    if (only_children && i != p) continue;
    if (sp_compound(i)) {
      int n = 0;
      for (int j = 1; j < D_N; j++) if (sp_child(j, i) && sp_proper(j) && sp_bit(set, j)) n++;
      if (n != 1) return 0;
    } else if (d_kind[i] == K_PARALLEL) {
      for (int j = 1; j < D_N; j++) if (sp_child(j, i) && sp_proper(j) && !sp_bit(set, j)) return 0;
    }
  }
  return 1;
}

/* hist_ok(history): what is remembered for a history element is either nothing or a set of states that
 * were simultaneously active below the history's parent: shallow - one child state of a compound parent /
 * all child states of a parallel parent; deep - a legal partial configuration below the parent.
 * Phrased over the spec masks (child states / proper descendants of the parent), not the emitted completion. */
static int hist_ok(const unsigned char *hist) {
  for (int i = 0; i < 8 * USCXML_MAX_NR_STATES_BYTES; i++)
    if (sp_bit(hist, i) && (i >= D_N || !sp_proper(i))) return 0;
  for (int h = 1; h < D_N; h++) {
    if (!sp_is_history(h)) continue;
    int p = d_parent[h];
    int any = 0;
    if (d_kind[h] == K_HSHALLOW) {
      for (int j = 1; j < D_N; j++) if (sp_child(j, p) && sp_bit(hist, j)) any = 1;
      if (any && !legal_below(hist, p, 1)) return 0;
    } else {
      for (int j = 1; j < D_N; j++) if (sp_desc(j, p) && sp_bit(hist, j)) any = 1;
      if (any && !legal_below(hist, p, 0)) return 0;
    }
  }
  return 1;
}
#endif
