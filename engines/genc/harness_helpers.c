/* HELPERS_C is the block of bit_* helpers cut out of an emitted file (between '#ifndef USCXML_NO_BIT_OPERATIONS'
 * and its '#endif'), byte for byte. */
#include "helpers_contracts.h"
#include HELPERS_C
size_t nondet_size_t(void);
#define H2(fn) void h_##fn(void) { unsigned char *d; const unsigned char *m; size_t i; g_k = nondet_size_t(); fn(d, m, i); __CPROVER_assert(0, "CANARY returns"); }
H2(bit_or) H2(bit_and) H2(bit_and_not) H2(bit_copy)
void h_bit_clear_all(void) { unsigned char *a; size_t i; g_k = nondet_size_t(); bit_clear_all(a, i); __CPROVER_assert(0, "CANARY returns"); }
void h_bit_has_and(void) { const unsigned char *a, *b; size_t i; g_k = nondet_size_t(); int r = bit_has_and(a, b, i); __CPROVER_assert(0, "CANARY returns"); if (r) __CPROVER_assert(0, "CANARY true"); else __CPROVER_assert(0, "CANARY false"); }
void h_bit_has_any(void) { const unsigned char *a; size_t i; g_k = nondet_size_t(); int r = bit_has_any(a, i); __CPROVER_assert(0, "CANARY returns"); if (r) __CPROVER_assert(0, "CANARY true"); else __CPROVER_assert(0, "CANARY false"); }
