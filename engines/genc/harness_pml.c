/* C05, third clause: "the C, Promela and VHDL outputs embed the same tables" - for the Promela output.
 * PML_TABLES is the table-initialisation block of the emitted Promela text, cut out mechanically by pml_tables.py
 * (statements verbatim); GENC_FILE is the C output of the same document.  After running the Promela statements on
 * zeroed tables every column must equal the corresponding column of the C tables (which harness_tables.h compares
 * with the spec).  All inputs are constants: closed obligations, CBMC evaluates them with bounds checks - a statement
 * that indexes outside the arrays the Promela typedefs declare fails an array-bounds obligation inside pml_init. */
#include <stddef.h>
#include GENC_FILE
#include DOC_FACTS
#include "spec_rec.h"
#include PML_TABLES

int wit_row, wit_col2;

static int hp_streq(const char *a, const char *b) {
  if (a == 0 || b == 0) return a == b;
  for (int i = 0; i < 256; i++) {
    if (a[i] != b[i]) return 0;
    if (a[i] == 0) return 1;
  }
  return 1;
}

void h_pml_tables(void) {
  const uscxml_machine *m = &USCXML_MACHINE;
  __CPROVER_assert(0, "CANARY pml tables harness reached");
  __CPROVER_assert(PML_NS == m->nr_states && PML_NS == D_N, "C05.pml.sizing: the Promela state table has one entry per state-like element");
  __CPROVER_assert(PML_NT == m->nr_transitions && PML_NT == D_T, "C05.pml.sizing: the Promela transition table has one entry per transition");
  __CPROVER_assert(PML_DIM_state_children == D_N && PML_DIM_state_completion == D_N && PML_DIM_state_ancestors == D_N && PML_DIM_state_type == 8,
                   "C05.pml.sizing: the state typedef declares one bit per state in children / completion / ancestors and 8 type bits");
#if D_T > 0
  __CPROVER_assert(PML_DIM_transition_target == D_N && PML_DIM_transition_exit_set == D_N && PML_DIM_transition_conflicts == D_T && PML_DIM_transition_type == 5,
                   "C05.pml.sizing: the transition typedef declares one bit per state in target / exit_set, one per transition in conflicts and 5 type bits");
  __CPROVER_assert(D_N <= (1 << PML_BITS_transition_source), "C05.pml.sizing: the source bit-field can hold every state index");
#endif
  __CPROVER_assert(D_N <= (1 << PML_BITS_state_parent), "C05.pml.sizing: the parent bit-field can hold every state index");
  if (PML_NS != D_N || PML_NT != D_T || m->nr_states != D_N || m->nr_transitions != D_T) return;

  pml_init();

  for (int i = 0; i < D_N; i++) {
    const uscxml_state *s = &m->states[i];
    wit_row = i;
    __CPROVER_assert(pml_state_name[i] == 0 || hp_streq(pml_state_name[i], s->name), "C05.pml.order: Promela state index i names the same state as C state i");
    __CPROVER_assert(ROOT_states[i].parent == s->parent, "C05.pml.parent: same parent as the C table");
    for (int j = 0; j < D_N; j++) {
      wit_col2 = j;
      __CPROVER_assert((ROOT_states[i].children[j] != 0) == sp_bit(s->children, j), "C05.pml.children: same children set as the C table");
      __CPROVER_assert((ROOT_states[i].completion[j] != 0) == sp_bit(s->completion, j), "C05.pml.completion: same (history) completion as the C table");
      __CPROVER_assert((ROOT_states[i].ancestors[j] != 0) == sp_bit(s->ancestors, j), "C05.pml.ancestors: same ancestor set as the C table");
    }
    for (int k = 0; k < 7; k++) {
      wit_col2 = k;
      __CPROVER_assert((ROOT_states[i].type[k] != 0) == (USCXML_STATE_MASK(s->type) == k + 1), "C05.pml.type: same state type as the C table (one-hot)");
    }
    __CPROVER_assert((ROOT_states[i].type[7] != 0) == ((s->type & USCXML_STATE_HAS_HISTORY) != 0), "C05.pml.type: same HAS_HISTORY flag as the C table");
  }
  __CPROVER_assert(PML_USCXML_STATE_ATOMIC == 0 && PML_USCXML_STATE_PARALLEL == 1 && PML_USCXML_STATE_COMPOUND == 2 && PML_USCXML_STATE_FINAL == 3 &&
                   PML_USCXML_STATE_HISTORY_DEEP == 4 && PML_USCXML_STATE_HISTORY_SHALLOW == 5 && PML_USCXML_STATE_INITIAL == 6 && PML_USCXML_STATE_HAS_HISTORY == 7 &&
                   USCXML_STATE_ATOMIC == 1 && USCXML_STATE_PARALLEL == 2 && USCXML_STATE_COMPOUND == 3 && USCXML_STATE_FINAL == 4 &&
                   USCXML_STATE_HISTORY_DEEP == 5 && USCXML_STATE_HISTORY_SHALLOW == 6 && USCXML_STATE_INITIAL == 7,
                   "C05.pml.type: the type constants of the two outputs correspond (Promela index = C code - 1)");
  __CPROVER_assert(PML_USCXML_TRANS_SPONTANEOUS == 0 && PML_USCXML_TRANS_TARGETLESS == 1 && PML_USCXML_TRANS_INTERNAL == 2 && PML_USCXML_TRANS_HISTORY == 3 && PML_USCXML_TRANS_INITIAL == 4 &&
                   USCXML_TRANS_SPONTANEOUS == 1 && USCXML_TRANS_TARGETLESS == 2 && USCXML_TRANS_INTERNAL == 4 && USCXML_TRANS_HISTORY == 8 && USCXML_TRANS_INITIAL == 16,
                   "C05.pml.trans_type: the transition flag constants of the two outputs correspond (Promela index = log2 of the C flag)");
  for (int t = 0; t < D_T; t++) {
    const uscxml_transition *tr = &m->transitions[t];
    wit_row = t;
    __CPROVER_assert(ROOT_transitions[t].source == tr->source, "C05.pml.order: same transition order / source as the C table");
    for (int j = 0; j < D_N; j++) {
      wit_col2 = j;
      __CPROVER_assert((ROOT_transitions[t].target[j] != 0) == sp_bit(tr->target, j), "C05.pml.target: same target set as the C table");
      __CPROVER_assert((ROOT_transitions[t].exit_set[j] != 0) == sp_bit(tr->exit_set, j), "C05.pml.exit_set: same exit set as the C table");
    }
    for (int u = 0; u < D_T; u++) {
      wit_col2 = u;
      __CPROVER_assert((ROOT_transitions[t].conflicts[u] != 0) == sp_bit(tr->conflicts, u), "C05.pml.conflicts: same conflict relation as the C table");
    }
    for (int k = 0; k < 5; k++) {
      wit_col2 = k;
      __CPROVER_assert((ROOT_transitions[t].type[k] != 0) == ((tr->type >> k) & 1), "C05.pml.trans_type: same transition flags as the C table");
    }
  }
}
