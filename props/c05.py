"""C05 - transpiler computes the chart's structural relations correctly (C back end; DESIGN.md section 3, C05)."""
from props import genc_common


def check(tier):
    expl = ('Translation validation per emitted document: the state/transition tables embedded in the C output of uscxml-transform '
            '(built from /repo on every run) are compared, column by column, with spec functions written from the Recommendation over an '
            'independent XML reading of the document: order (pre-order, post-fix priority of transitions), parent, children, ancestors, '
            'type, default completion, history completion, targets, transition type, exit sets, conflict relation (two-sided). All inputs '
            'are constants, so every obligation is closed and CBMC evaluates it with bounds checking. Programs = corpus, NOT all documents; '
            'Promela/VHDL copies of the tables are not covered.')
    return genc_common.account('C05', tier, lambda key, tag, f: key == 'T' and tag in ('C05', ''), expl, 'translation_validation')


def replay(path):
    return genc_common.replay(path)
