"""Shared accounting for the three properties served by the genc-doc engine (C02, C04, C05)."""
import importlib.util
import json
import os
import re
import subprocess
import time

import common

HERE = os.path.join(common.VERIF, 'engines', 'genc')


def load_engine():
    spec = importlib.util.spec_from_file_location('run_genc', os.path.join(HERE, 'run_genc.py'))
    m = importlib.util.module_from_spec(spec)
    spec.loader.exec_module(m)
    return m


def hexbytes(trace, name, n):
    vals = {}
    for st in trace or []:
        m = re.match(r'%s\[(\d+)l?\]$' % re.escape(name), st.get('lhs') or '')
        if m and st.get('binary'):
            vals[int(m.group(1))] = int(st['binary'], 2) & 0xff
    return ''.join('%02x' % vals.get(i, 0) for i in range(n))


def scalar(trace, name):
    v = None
    for st in trace or []:
        if st.get('lhs') == name and st.get('binary'):
            v = int(st['binary'], 2)
    return v


def build_replay(doc, base, wd):
    cfile = os.path.join(wd, base + '.c')
    ffile = os.path.join(wd, base + '.facts.h')
    exe = os.path.join(common.WORK, 'bin', 'replay_genc_' + base)
    os.makedirs(os.path.dirname(exe), exist_ok=True)
    cmd = ['clang', '-g', '-O1', '-fsanitize=address,undefined', '-w', '-I', HERE, '-DGENC_FILE="%s"' % cfile,
           '-DDOC_FACTS="%s"' % ffile, os.path.join(common.VERIF, 'replay', 'replay_genc.c'), '-o', exe]
    p = subprocess.run(cmd, capture_output=True, text=True)
    if p.returncode != 0:
        return None, p.stderr[-600:]
    return exe, ''


def native_step_replay(doc, base, wd, trace, nested, nb):
    exe, err = build_replay(doc, base, wd)
    if not exe:
        return False, 'cannot build native replay: ' + err, None
    flags = scalar(trace, 'wit_pre_flags')
    env = dict(os.environ, ASAN_OPTIONS='detect_leaks=0')
    if flags is None:
        # no witness for this obligation: search from the pristine context under ASan/UBSan
        args = [exe, 'reach', '6', '16'] + (['skiphist'] if nested else [])
        try:
            q = subprocess.run(args, capture_output=True, text=True, env=env, timeout=600, errors='replace')
            out = (q.stdout + q.stderr).strip()
            rep = q.returncode != 0
            key = [l for l in out.splitlines() if 'ERROR: AddressSanitizer' in l or 'runtime error' in l or 'REPRODUCED' in l]
            return rep, 'no pre-state in the trace; native search from the pristine context (6 steps, 2^16 answer patterns): ' + (' / '.join(key[:2]) if key else out[-300:]), {'cmd': ' '.join(args)}
        except subprocess.TimeoutExpired:
            return False, 'no pre-state in the trace; native search timed out', None
    cfg = hexbytes(trace, 'wit_pre_config', nb)
    hist = hexbytes(trace, 'wit_pre_history', nb)
    inv = hexbytes(trace, 'wit_pre_invocations', nb)
    args = [exe, 'pre', str(flags), cfg, hist, '14'] + (['skiphist'] if nested else []) + [inv]
    try:
        p = subprocess.run(args, capture_output=True, text=True, env=env, timeout=300, errors='replace')
        out = (p.stdout + p.stderr).strip()
        rep = p.returncode != 0
    except subprocess.TimeoutExpired:
        out, rep = 'native replay timed out', False
    reach = ''
    if rep:
        try:
            q = subprocess.run([exe, 'reach', '8', '20'] + (['skiphist'] if nested else []), capture_output=True, text=True, env=env, timeout=600, errors='replace')
            reach = (q.stdout + q.stderr).strip().splitlines()[-1:] and (q.stdout + q.stderr).strip().splitlines()[-1]
        except subprocess.TimeoutExpired:
            reach = 'reachability search timed out'
    return rep, (out[-700:] + (' || reachability from the pristine context: ' + reach if reach else '')), {'flags': flags, 'config': cfg, 'history': hist, 'cmd': ' '.join(args)}


def account(prop, tier, want_tags, expl, level, extra_note=''):
    """Generic driver: want_tags(part_key, tag, klass) -> True if an obligation of harness part_key with
    description tag belongs to this property."""
    t0 = time.time()
    eng = load_engine()
    res = eng.run_all(tier)
    part = common.Part('genc')
    wd = os.path.join(common.WORK, 'genc')
    if res.get('fatal'):
        part.errors.append(res['fatal'])
        return common.finish(prop, tier, level, [part], t0, expl)
    part.trusted += ['cbmc/goto-cc/goto-instrument 6.11.0', 'the out-of-tree build of uscxml-transform from /repo and its invocation (route R2)',
                     'independent XML reading of the corpus documents (python xml.etree, engines/genc/docfacts.py)',
                     'spec functions engines/genc/spec_rec.h and legality predicates engines/genc/wf.h, transcribed from the Recommendation']
    known = common.load_known()
    skipped, closed, unclosed, nested_docs = [], 0, [], []
    programs = 0
    flat = []
    nested_skipped = []
    pml_skipped = []
    for d in res['docs']:
        flat.append(d)
        flat += d.get('nested') or []
        if d.get('nested_skipped'):
            nested_skipped.append('%s: %s' % (d['name'], d['nested_skipped']))
    for d in flat:
        if d['status'] == 'skip':
            skipped.append('%s: %s' % (d['name'], d['skip']))
            continue
        if d['status'] == 'error':
            part.errors.append('%s: %s' % (d['name'], d['reason']))
            continue
        programs += 1
        base = re.sub(r'[^A-Za-z0-9]', '_', d['name'].split('#')[0])
        mbase = base + ('_m' + d['name'].split('#')[1] if '#' in d['name'] else '')
        step = d.get('step') or {}
        A, B, G, R = step.get('A'), step.get('B'), step.get('G'), step.get('R')
        loop_closed = bool(A and A['status'] == 'ok' and not A['failed'] and A.get('classes', {}).get('loop_invariant_step', 0) > 0
                           and G and G['status'] == 'ok' and not G['failed'])
        if loop_closed:
            closed += 1
        else:
            why = (A or {}).get('reason') or ('loop obligations failed' if A and A['failed'] else 'part A missing')
            unclosed.append('%s: %s' % (d['name'], why[:160]))
        if d.get('nested_history'):
            nested_docs.append(d['name'])
        P = d.get('pml')
        if P and P.get('status') == 'skip':
            pml_skipped.append('%s: %s' % (d['name'], P['reason'][:200]))
            P = None
        for key, r in [('T', d.get('tables')), ('P', P), ('A', A), ('B', B), ('G', G), ('R', R)]:
            if not r:
                continue
            if r['status'] != 'ok':
                if key == 'A' and r['reason'].startswith('RESOURCE'):
                    continue  # reported through 'unclosed': the B obligations of this document become bounded
                if any(want_tags(key, t, None) for t in ('C02', 'C04', 'C05', '')):
                    part.errors.append('%s part %s: %s' % (d['name'], key, r['reason'][:300]))
                continue
            part.solver_s += r['time'].get('cbmc', 0)
            n = ok = 0
            if key == 'A':
                # part A runs on a cut copy of the step function: only the loop-contract obligations of the
                # DEQUEUE_EVENT loop are taken from it (everything else is decided, uncut, in part B)
                if want_tags(key, 'C04', None):
                    n = sum(v for k, v in (r.get('classes') or {}).items() if k.startswith('loop_'))
                    ok = n - sum(1 for f in r['failed'] if '.loop_' in f['property'])
            else:
                for tag, (tn, tok) in (r.get('tags') or {}).items():
                    if want_tags(key, tag, None):
                        n += tn
                        ok += tok
            if n == 0:
                continue
            bounded = (key == 'B' and not loop_closed) or key == 'R'
            if bounded:
                part.bounded_obligations += n
                part.bounded_discharged += ok
            else:
                part.obligations += n
                part.discharged += ok
            if len(part.jobs) < 400:
                part.jobs.append({'doc': d['name'], 'part': key, 'obligations': n, 'discharged': ok, 'bounded': bounded,
                                  'cbmc_s': r['time'].get('cbmc'), 'states': d['info'].get('states'), 'transitions': d['info'].get('transitions')})
            if r.get('checker_cmd') and not part.checker_cmds:
                part.checker_cmds.append(r['checker_cmd'])
            for s_ in (r.get('samples') or [])[:1]:
                if len(part.samples) < 10:
                    part.samples.append('%s[%s] %s' % (d['name'], key, s_))
            for f in r['failed']:
                if not want_tags(key, f.get('tag', ''), f):
                    continue
                if key == 'A' and '.loop_' not in f['property']:
                    continue
                tr = f.get('trace')
                payload = {'property': prop, 'engine': 'genc', 'document': d['path'], 'doc_name': d['name'], 'part': key,
                           'obligation': f['property'], 'description': f['description'], 'location': f.get('location'),
                           'emitted_file': os.path.join(wd, base + '.c')}
                reproduced, text = False, ''
                replay_budget = len(part.violations) < 8   # common.finish prints at most 8 violation lines; native searches are expensive
                if key == 'T' and f['description'].startswith('C04.compile'):
                    q = subprocess.run(['cc', '-fsyntax-only', '-pedantic-errors', '-w', os.path.join(wd, base + '.c')], capture_output=True, text=True, errors='replace')
                    reproduced = q.returncode != 0
                    text = 'native: cc -fsyntax-only -pedantic-errors %s -> rc=%s %s' % (os.path.join(wd, base + '.c'), q.returncode, (q.stderr or '').strip().splitlines()[:1])
                elif key == 'P':
                    row, col = scalar(tr, 'wit_row'), scalar(tr, 'wit_col2')
                    payload.update(row=row, col=col, emitted_promela=os.path.join(wd, base + '.pml'))
                    reproduced = True  # closed obligation over constants: the two emitted files ARE the failing input
                    text = 'Promela table row %s (second index %s) of %s differs from the C table of the same document; re-emit with: uscxml-transform -tpml -i %s and -tc -i %s' % (row, col, d['name'], d['path'], d['path'])
                elif key == 'T':
                    row, col = scalar(tr, 'wit_row'), scalar(tr, 'wit_col2')
                    payload.update(row=row, col=col)
                    reproduced = True  # closed obligation over constants: the emitted row IS the failing input
                    text = 'emitted table row %s (second index %s) of %s differs from the set the Recommendation defines; re-emit with: uscxml-transform -tc -i %s' % (row, col, d['name'], d['path'])
                elif not replay_budget:
                    text = 'native replay skipped: this run already has 8 violations with a replay'
                elif key == 'R':
                    exe, err = build_replay(d, mbase if os.path.exists(os.path.join(wd, mbase + '.facts.h')) else base, wd)
                    if exe:
                        q = subprocess.run([exe, 'bfs', '9', '12', 'skiphist'], capture_output=True, text=True, env=dict(os.environ, ASAN_OPTIONS='detect_leaks=0'), timeout=900, errors='replace')
                        reproduced = q.returncode != 0
                        text = (q.stdout + q.stderr).strip()[-600:]
                        payload['native_cmd'] = exe + ' bfs 9 12 skiphist'
                    else:
                        text = 'cannot build native replay: ' + err
                elif key == 'B':
                    nb = (d['info'].get('states', 8) + 7) // 8
                    m = re.search(r'USCXML_MAX_NR_STATES_BYTES\s+(\d+)', open(os.path.join(wd, base + '.c'), errors='replace').read())
                    nb = int(m.group(1)) if m else nb
                    reproduced, text, pre = native_step_replay(d, base, wd, tr, d.get('nested_history'), nb)
                    payload['pre_state'] = pre
                payload['native_replay_output'] = text
                ident = '%s %s' % (d['name'], f['description'].split(':')[0])
                kf = [k for k in known.get('findings', []) if k.get('property') == prop and k.get('doc') == d['name'] and f['description'].startswith(k.get('obligation_prefix', '\0'))
                      and (k.get('row') is None or k.get('row') == payload.get('row'))]
                if kf:
                    line = '%s: %s' % (ident, kf[0].get('what', ''))
                    if line not in part.known:
                        part.known.append(line)
                    continue
                path = common.write_replay(prop, '%s_%s_%s' % (base, key, f['property']), payload)
                part.violations.append({'obligation': '%s [%s] %s' % (d['name'], key, f['property']), 'replay': path, 'reproduced': reproduced,
                                        'what': '%s | %s' % (f['description'], text)})
    part.functions += [
        {'function': 'uscxml_step (emitted)', 'file': 'src/uscxml/transform/ChartToC.cpp:writeFSM -> work/genc/<doc>.c', 'route': 'R2 emit; contract attached by re-declaration in engines/genc/harness_doc.c, loop contract for the DEQUEUE_EVENT back-edge from run_genc.py:step_loop_contract',
         'verified_per_document': programs},
        {'function': 'emitted <doc>_on_entry/_on_exit/_on_trans/_is_enabled/_invoke/_global_script functions', 'file': 'ChartToC.cpp:writeExecContent* -> work/genc/<doc>.c', 'route': 'R2 emit; called from uscxml_step through the emitted tables, checked against their bodies'},
        {'function': 'bit_has_and, bit_clear_all, bit_has_any, bit_or, bit_copy, bit_and_not, bit_and (emitted)', 'file': 'ChartToC.cpp:writeHelpers -> work/genc/<doc>.c', 'route': 'R2 emit; inlined into the per-document proofs (loops bounded by the sizing constants); for all arguments in engines/genc helpers proof when present'},
        {'function': 'Promela table block (ChartToPromela::writeStates, writeTransitions)', 'file': 'src/uscxml/transform/ChartToPromela.cpp:784-900 -> work/genc/<doc>.pml', 'route': 'R2 emit; the assignment statements of the init block are cut out mechanically (engines/genc/pml_tables.py), evaluated by CBMC and compared column by column with the C tables of the same document (harness_pml.c)'},
        {'function': 'emitted tables (ChartToC::prepare, setStateCompletion, setHistoryCompletion, writeStates, writeTransitions; Predicates.cpp getTransitionDomain/getExitSet/findLCCA)', 'file': 'src/uscxml/transform/ChartToC.cpp:70-432,1936-2141; src/uscxml/util/Predicates.cpp:72-180', 'route': 'postcondition of the C++ code checked on its output per document (closed obligations, harness_tables.h)'}]
    part.programs = programs
    part.extra['documents_validated'] = programs
    part.extra['documents_skipped'] = skipped
    part.extra['nested_machines_not_validated'] = nested_skipped
    if prop == 'C05':
        part.extra['documents_without_promela_table_comparison'] = pml_skipped
    part.extra['documents_with_DEQUEUE_loop_closed_by_loop_contract'] = closed
    part.extra['documents_where_loop_contract_not_closed_(their_step_obligations_are_counted_bounded)'] = unclosed
    part.extra['documents_with_nested_histories_(C02_history_clause_not_decided)'] = nested_docs
    part.extra['engine_wall_s'] = res.get('wall_s')
    part.extra['results_from_cache'] = res.get('cached')
    part.bounds += ['programs = corpus: %d documents this run (hand-written corpus + W3C IRP lua flavour%s); NOT all documents' % (programs, '' if tier == 'thorough' else ', seeded sample'),
                    'per document: every loop of the emitted code is bounded by a table constant and unwound with unwinding assertions; the one unbounded loop (DEQUEUE_EVENT back-edge, one iteration per ignored event) is closed by a loop contract (part A) + glue lemma (part G); where part A exceeds the tool budget the document\'s step obligations are reported as bounded (<= 1 ignored event per step)',
                    '<foreach> iterates over at most 2 items in the harness (stub_foreach_next budget)']
    part.assumptions += [
        'genc: user callbacks honour const uscxml_ctx* (write nothing reachable from ctx); executable-content callbacks return USCXML_ERR_OK or an error code 3..8 (IDLE/DONE are the step function\'s own answers); is_true/is_matched return arbitrary ints',
        'genc: derived preconditions of the emitted code - ctx->is_matched, ctx->raise_done_event and ctx->invoke are non-NULL (called unguarded); a context is pristine (flags==0) or has USCXML_CTX_INITIALIZED',
        'genc: machines nested in <invoke><content><scxml> are validated like documents of their own (name doc#k); machines pulled in through invoke src= or nested deeper are not (listed)',
        'genc: a context between steps has USCXML_CTX_TRANSITION_FOUND clear (transient flag; proved to be re-established by every step)',
        'genc (C04.select/.step/.content): is_matched answers are a function of the transition and is_true answers a function of the condition text within one step (ghost arrays chosen up front, any int); a missing is_true callback counts as "enabled" as in the emitted is_enabled wrappers; pre-emption where the Recommendation-level spec leaves it open (nested sources with a parallel state between) is read from the emitted conflicts column; spec functions spec_rec.h / spec_step.h / wf.h and the reading of the document (docfacts.py) are trusted',
    ]
    if extra_note:
        part.assumptions.append(extra_note)
    parts = [part]
    if prop == 'C04':
        import importlib.util as _u
        sp = _u.spec_from_file_location('genc_helpers', os.path.join(HERE, 'helpers.py'))
        hm = _u.module_from_spec(sp)
        sp.loader.exec_module(hm)
        files = [(d['name'], os.path.join(wd, re.sub(r'[^A-Za-z0-9]', '_', d['name']) + '.c')) for d in res['docs'] if d['status'] == 'ok']
        parts.append(hm.run(files))
    lk = {'programs': programs, 'disagreements_checked': len(part.violations),
          'samples': [j for j in part.jobs[:6]] or ['(none)']}
    return common.finish(prop, tier, level, parts, t0, expl, level_keys=lk)


def replay(path):
    d = json.load(open(path))
    wd = os.path.join(common.WORK, 'genc')
    eng = load_engine()
    err = eng.ensure_transform()
    if err:
        print(err)
        return 2
    r = eng.verify_doc((d['doc_name'], d['document'], wd, 'quick'))
    bad = 0
    items = [('T', r.get('tables'))] + list((r.get('step') or {}).items())
    for k, x in items:
        for f in (x or {}).get('failed', []):
            print('%s part %s: %s -- %s' % (d['doc_name'], k, f['property'], f['description']))
            bad = 1
    if d.get('pre_state'):
        print('native: ' + d['pre_state']['cmd'])
    return bad
