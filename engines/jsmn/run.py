"""Engine jsmn (C15 layer a): contracts on the unmodified contrib/src/jsmn/jsmn.c."""
import os
import subprocess
import sys
from concurrent.futures import ThreadPoolExecutor

HERE = os.path.dirname(os.path.abspath(__file__))
sys.path.insert(0, os.path.join(HERE, '..', '..', 'lib'))
sys.path.insert(0, HERE)
import cbmcrun
import common
import loops as jl

FUNCS = [
    # (function, replaced callees (verified against their contracts, not bodies), has loops)
    ('jsmn_alloc_token', [], False),
    ('jsmn_fill_token', [], False),
    ('jsmn_init', [], False),
    ('jsmn_parse_string', [], True),       # alloc_token / fill_token inlined (loop-free leaves; replacing them blows the SAT instance up)
    ('jsmn_parse_primitive', [], True),
    ('jsmn_parse', ['jsmn_parse_string', 'jsmn_parse_primitive'], True),
]


def build_replay(part):
    out = os.path.join(common.WORK, 'bin', 'replay_jsmn')
    os.makedirs(os.path.dirname(out), exist_ok=True)
    src = os.path.join(common.VERIF, 'replay', 'replay_jsmn.c')
    jsmn_dir = os.path.join(common.REPO, 'contrib/src/jsmn')
    cmd = ['clang', '-g', '-O1', '-fsanitize=address,undefined', '-fno-sanitize-recover=undefined',
           '-I', jsmn_dir, '-DJSMN_C="%s/jsmn.c"' % jsmn_dir, src, '-o', out]
    p = subprocess.run(cmd, capture_output=True, text=True)
    if p.returncode != 0:
        part.errors.append('cannot build native replay: ' + p.stderr[-800:])
        return None
    return out


def run(tier):
    part = common.Part('jsmn')
    wd = os.path.join(common.WORK, 'jsmn')
    os.makedirs(wd, exist_ok=True)
    jsmn_dir = os.path.join(common.REPO, 'contrib/src/jsmn')
    jsmn_c = os.path.join(jsmn_dir, 'jsmn.c')
    maxn = 4096
    maxt = int(os.environ.get('VERIF_MAXT', 8 if tier == 'quick' else 16))
    part.bounds += ['object size of js: %d+1 bytes (input length <= %d; loops are NOT unwound)' % (maxn, maxn),
                    'object size of tokens: %d+1 elements (token budget <= %d; loops are NOT unwound)' % (maxt, maxt)]
    part.trusted += [cbmcrun.tool_versions(), 'CBMC C semantics: LP64, two\'s complement, char signed']
    part.assumptions += [
        'jsmn: compiled as the repository does, without JSMN_STRICT and without JSMN_PARENT_LINKS',
        'jsmn: strlen(js) <= %d and token budget <= %d (object-size bounds for CBMC; for longer inputs the unsigned->int conversions at jsmn.c:42,86,166 need strlen(js) <= INT_MAX, which the code itself relies on)' % (maxn, maxt),
        'jsmn: jsmn_alloc_token/jsmn_fill_token are inlined (checked against their bodies) when verifying jsmn_parse_string/jsmn_parse_primitive/jsmn_parse; their own contracts are enforced separately',
        'jsmn: contract of jsmn_parse_primitive requires js[pos] to be neither NUL nor a delimiter (derived from its only call site, asserted there as a precondition obligation)',
    ]
    jobs = []
    for fn, repl, has_loops in FUNCS:
        lf = None
        anchors = {}
        if has_loops:
            lf = os.path.join(wd, 'loops_%s.json' % fn)
            anchors = jl.write(lf, maxt, only=[fn])
        jobs.append(cbmcrun.Job(
            fn, [os.path.join(HERE, 'harness.c')], 'h_' + fn, wd, enforce=fn, replace=repl,
            includes=[jsmn_dir, HERE], defines={'JSMN_C': '"%s"' % jsmn_c, 'MAXN': str(maxn), 'MAXT': str(maxt)},
            cbmc_flags=['--drop-unused-functions'], loop_contracts_file=lf, apply_loop_contracts=has_loops,
            loop_anchors=anchors, timeout=3000, mem_gb=24))
        part.functions.append({'function': fn, 'file': 'contrib/src/jsmn/jsmn.c', 'route': 'R1 include (unmodified file)',
                               'callees_replaced_by_contract': repl, 'loop_contracts': len(anchors)})
    with ThreadPoolExecutor(len(jobs)) as ex:
        results = list(ex.map(cbmcrun.verify, jobs))
    failed = []
    for r in results:
        part.add_job(r)
        if r.get('anchor_drift'):
            part.extra.setdefault('loop_anchor_drift', []).append(r['anchor_drift'])
        if r['status'] == 'ok':
            for f in r['failed']:
                failed.append((r, f))
    part.extra['loop_contract_obligations'] = sum(
        sum(v for k, v in r.get('classes', {}).items() if k.startswith('loop_')) for r in results)
    if failed:
        rp = build_replay(part)
        found = None
        if rp:
            env = dict(os.environ, ASAN_OPTIONS='detect_leaks=0')
            p = subprocess.run([rp, 'search', '5' if tier == 'quick' else '6', '4'], capture_output=True, text=True, env=env, timeout=1800)
            out = p.stdout + p.stderr
            if p.returncode != 0:
                found = out[-3000:]
        for r, f in failed:
            if r.get('anchor_drift') and not found:
                part.errors.append('%s: loop map out of date (%s) and the failing obligation %s could not be reproduced natively - not reported as a violation' % (r['name'], r['anchor_drift'], f['property']))
                continue
            payload = {'property': 'C15', 'engine': 'jsmn', 'function': r['enforce'], 'obligation': f['property'],
                       'description': f['description'], 'location': f.get('location'),
                       'cbmc_trace_assignments': (f.get('trace') or [])[-80:],
                       'native_search_output': found,
                       'replay_cmd': '%s search 5 4   # or: one <hex> <budget>' % rp}
            path = common.write_replay('C15', 'jsmn_' + f['property'], payload)
            part.violations.append({'obligation': f['property'], 'replay': path, 'reproduced': bool(found),
                                    'what': f['description'] + (' | native: ' + found.strip().splitlines()[-1][:300] if found and 'REPRODUCED' in found else (' | native ASan: ' + found.strip()[:300] if found else ''))})
    return part


def replay(path):
    import json
    d = json.load(open(path))
    part = common.Part('jsmn')
    rp = build_replay(part)
    if not rp:
        print(part.errors)
        return 2
    env = dict(os.environ, ASAN_OPTIONS='detect_leaks=0')
    out = d.get('native_search_output') or ''
    import re
    m = re.search(r'REPRODUCED input=([0-9a-f]*) budget=(\d+)', out)
    cmd = [rp, 'one', m.group(1), m.group(2)] if m else [rp, 'search', '5', '4']
    p = subprocess.run(cmd, env=env)
    return 1 if p.returncode != 0 else 0


if __name__ == '__main__':
    import time
    t0 = time.time()
    p = run(sys.argv[1] if len(sys.argv) > 1 else 'quick')
    print(p.obligations, p.discharged, p.errors, p.violations, [(j['harness'], j['time_s']) for j in p.jobs], time.time() - t0)
