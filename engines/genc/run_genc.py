"""Engine genc-doc (C02, C04, C05): per emitted document, contracts on the emitted uscxml_step() and closed
obligations on the emitted tables.  One pass produces the results for all three properties; they are
cached in work/genc/results_<tier>.json keyed by a digest of /repo's transpiler sources + this engine, so
that `check C02`, `check C04`, `check C05` run back to back do the CBMC work once."""
import glob
import hashlib
import json
import os
import random
import re
import subprocess
import sys
import time
from concurrent.futures import ThreadPoolExecutor

HERE = os.path.dirname(os.path.abspath(__file__))
sys.path.insert(0, os.path.join(HERE, '..', '..', 'lib'))
sys.path.insert(0, HERE)
import cbmcrun
import common
import docfacts
import pml_tables

TRANSFORM = os.path.join(common.BUILD, 'bin', 'uscxml-transform')


def ensure_transform():
    p = subprocess.run([os.path.join(common.VERIF, 'lib/ensure_build.sh'), 'uscxml-transform'], capture_output=True, text=True)
    if p.returncode != 0:
        return (p.stdout + p.stderr)[-2000:]
    return ''


def corpus(tier):
    """list of (name, path).  Expressions are opaque to the transpiler, so one datamodel flavour of each
    IRP test is enough: the 'lua' directory is used (it is the most complete one)."""
    docs = []
    for p in sorted(glob.glob(os.path.join(common.VERIF, 'corpus', '*.scxml'))):
        docs.append(('corpus/' + os.path.basename(p), p))
    irp = sorted(glob.glob(os.path.join(common.REPO, 'test/w3c/lua/test*.scxml')))
    irp = [p for p in irp if re.search(r'/test\d+\.scxml$', p)]
    issues = sorted(glob.glob(os.path.join(common.REPO, 'test/issues/*.scxml')))
    if tier == 'quick':
        rnd = random.Random(common.seed())
        # fixed core with the structurally interesting IRP tests + a seeded sample
        core = [p for p in irp if re.search(r'/test(144|355|364|372|387|388|403a|403c|404|405|406|407|412|413|416|417|419|421|423|503|504|505|506|533|570|576|579|580)\.scxml$', p)]
        rest = [p for p in irp if p not in core]
        rnd.shuffle(rest)
        irp = core + rest[:12]
        issues = issues[:0]
    # seeded generator of well-formed charts (VERIF_SEED): a few in the quick tier, many in the thorough tier
    gdir = os.path.join(common.WORK, 'genc', 'gen_%d' % common.seed())
    ngen = 6 if tier == 'quick' else 48
    try:
        subprocess.run([sys.executable, os.path.join(common.VERIF, 'corpus', 'gen_charts.py'), str(common.seed()), str(ngen), gdir,
                        '12' if tier == 'quick' else '16'], check=True, capture_output=True)
        for p in sorted(glob.glob(os.path.join(gdir, 'gen_%d_*.scxml' % common.seed())))[:ngen]:
            docs.append(('generated/' + os.path.basename(p), p))
    except Exception:
        pass
    for p in irp:
        docs.append(('w3c/lua/' + os.path.basename(p), p))
    for p in issues:
        docs.append(('issues/' + os.path.basename(p), p))
    return docs


def digest():
    h = hashlib.sha256()
    files = sorted(glob.glob(os.path.join(common.REPO, 'src/uscxml/transform/*')) + glob.glob(os.path.join(common.REPO, 'src/uscxml/util/*')) +
                   glob.glob(os.path.join(common.REPO, 'src/apps/uscxml-transform.cpp')) + glob.glob(os.path.join(HERE, '*')) +
                   glob.glob(os.path.join(common.VERIF, 'lib', '*.py')) + glob.glob(os.path.join(common.VERIF, 'corpus', '*')))
    for f in files:
        if os.path.isfile(f):
            h.update(f.encode())
            h.update(open(f, 'rb').read())
    h.update(subprocess.run(['git', '-C', common.REPO, 'rev-parse', 'HEAD'], capture_output=True).stdout)
    h.update(subprocess.run(['git', '-C', common.REPO, 'diff', 'HEAD', '--', 'src', 'contrib'], capture_output=True).stdout)
    return h.hexdigest()


def loop_ids(binary, fn, log=None):
    return {k[1]: v for k, v in cbmcrun.show_loops(binary, log).items() if k[0] == fn}


def find_line(lines, rx, after=0):
    for i in range(after, len(lines)):
        if re.search(rx, lines[i]):
            return i + 1
    return None


def step_loop_contract(nb, tb, prefix):
    inv = ['ctx == &g_ctx', 'ctx->machine == &%s_machine' % prefix, 'ctx->is_matched != 0', 'ctx->raise_done_event != 0', 'ctx->invoke != 0',
           '(ctx->flags & 0xFE) == (__CPROVER_loop_entry(ctx->flags) & 0xFE)']
    for k in range(nb):
        inv.append('target_set[%d] == 0' % k)
    for k in range(tb):
        inv.append('trans_set[%d] == 0' % k)
    inv.append('G.phase == 0')   # no executable content runs inside the DEQUEUE_EVENT loop
    assigns = ['ctx->flags', 'ctx->event', 'i', 'G',
               '__CPROVER_object_whole(conflicts)', '__CPROVER_object_whole(exit_set)', '__CPROVER_object_whole(target_set)', '__CPROVER_object_whole(trans_set)',
               '__CPROVER_object_upto(ctx->invocations, %d)' % nb]
    return inv, assigns


def verify_doc(args):
    name, path, wd, tier = args
    t0 = time.time()
    res = {'name': name, 'path': path, 'status': 'ok', 'reason': '', 'tables': None, 'step': None, 'info': {}, 'skip': None}
    base = re.sub(r'[^A-Za-z0-9]', '_', name)
    cfile = os.path.join(wd, base + '.c')
    try:
        p = subprocess.run([TRANSFORM, '-tc', '-i', path, '-o', cfile], capture_output=True, text=True, timeout=120, errors='replace')
    except subprocess.TimeoutExpired:
        res.update(status='skip', skip='uscxml-transform timed out')
        return res
    if p.returncode != 0 or not os.path.exists(cfile) or os.path.getsize(cfile) < 1000:
        res.update(status='skip', skip='uscxml-transform failed (rc=%s): %s' % (p.returncode, (p.stderr or '')[-300:].replace('\n', ' ')))
        return res
    ctext = open(cfile, errors='replace').read()
    if 'int uscxml_step(' not in ctext:
        res.update(status='skip', skip='no step function emitted')
        return res
    # the top machine, then the machines nested in <invoke><content> (each validated like a document of its own)
    res = verify_machine(res, name, path, wd, base, cfile, ctext, 0, None)
    if res['status'] == 'ok':
        try:
            nested = docfacts.nested_machines(path)
        except docfacts.DocError:
            nested = None
        nm = res['info'].get('machines_in_file', 1)
        res['nested'] = []
        if nm > 1:
            if nested is None or len(nested) != nm - 1:
                res['nested_skipped'] = 'file has %d machines; nested ones not validated (src= invokes or deeper nesting)' % nm
            else:
                for k, el in enumerate(nested, 1):
                    sub = {'name': '%s#%d' % (name, k), 'path': path, 'status': 'ok', 'reason': '', 'tables': None, 'step': None, 'info': {}, 'skip': None}
                    sub = verify_machine(sub, sub['name'], path, wd, '%s_m%d' % (base, k), cfile, ctext, k, el)
                    sub.pop('nested', None)
                    res['nested'].append(sub)
    res['wall_s'] = round(time.time() - t0, 1)
    if not os.environ.get('VERIF_KEEP'):
        for f in glob.glob(os.path.join(wd, base + '.*.gb')):
            os.remove(f)
    return res


def verify_pml(name, path, wd, base, defines, n, t):
    """C05, Promela copy of the tables of the top machine (see pml_tables.py / harness_pml.c)"""
    pfile = os.path.join(wd, base + '.pml')
    required = name.startswith('corpus/')   # the hand-written datamodel-free charts: the Promela back end must accept them (generated / IRP documents it rejects are listed as not compared)
    try:
        p = subprocess.run([TRANSFORM, '-tpml', '-i', path, '-o', pfile], capture_output=True, text=True, timeout=120, errors='replace')
        ok = p.returncode == 0 and os.path.exists(pfile) and os.path.getsize(pfile) > 1000
        why = 'rc=%s %s' % (p.returncode, (p.stderr or '')[-200:].replace('\n', ' '))
    except subprocess.TimeoutExpired:
        ok, why = False, 'timed out'
    if not ok:
        if required:
            return {'name': base + '.pml', 'status': 'ok', 'reason': '', 'obligations': 1, 'discharged': 0, 'canaries_fired': 1, 'canaries_total': 1, 'time': {}, 'classes': {},
                    'samples': [], 'tags': {'C05': [1, 0]}, 'checker_cmd': '%s -tpml -i %s' % (TRANSFORM, path),
                    'failed': [{'property': 'emitted_pml.emit', 'tag': 'C05', 'location': {'file': path},
                                'description': 'C05.pml.emit: the Promela back end emits a model for a chart without datamodel (%s)' % why}]}
        return {'name': base + '.pml', 'status': 'skip', 'reason': 'Promela back end did not emit this document (%s); Promela tables not compared' % why, 'failed': [], 'time': {}}
    try:
        ctab, pinfo = pml_tables.extract(open(pfile, errors='replace').read())
    except pml_tables.ExtractionError as e:
        return _err(base + '.pml', 'extraction broken (Promela table block): %s' % e)
    tfile = os.path.join(wd, base + '.pml_tables.h')
    open(tfile, 'w').write(ctab)
    K = max(n, t) + 4
    job = cbmcrun.Job(base + '.pml', [os.path.join(HERE, 'harness_pml.c')], 'h_pml_tables', wd, dfcc=False, includes=[HERE],
                      defines=dict(defines, PML_TABLES='"%s"' % tfile),
                      cbmc_flags=['--drop-unused-functions', '--unwind', str(max(K, 260)), '--unwinding-assertions'],
                      timeout=900, mem_gb=8, meta={'doc': name})
    r = cbmcrun.verify(job)
    r['pml_info'] = pinfo
    return r


def verify_machine(res, name, path, wd, base, cfile, ctext, index, root):
    try:
        facts, info = docfacts.facts_c(path, ctext, index, root)
    except docfacts.DocError as e:
        res.update(status='skip', skip='document/emitted correspondence not established: %s' % e)
        return res
    res['info'] = info
    ffile = os.path.join(wd, base + '.facts.h')
    open(ffile, 'w').write(facts)
    n, t = info['states'], info['transitions']
    nb, tb = (n + 7) // 8, (t + 7) // 8   # bytes this machine's step function actually clears / uses
    m = re.search(r'#\s*define\s+USCXML_MAX_NR_STATES_BYTES\s+(\d+)', ctext)
    m2 = re.search(r'#\s*define\s+USCXML_MAX_NR_TRANS_BYTES\s+(\d+)', ctext)
    if not m or not m2:
        res.update(status='error', reason='sizing macros not found in emitted file')
        return res
    NB, TB = int(m.group(1)), int(m2.group(1))
    defines = {'GENC_FILE': '"%s"' % cfile, 'DOC_FACTS': '"%s"' % ffile}
    if index > 0:
        defines['USCXML_MACHINE'] = info['prefix'] + '_machine'
    harness = os.path.join(HERE, 'harness_doc.c')
    # ---- tables (C05 + wf facts): plain evaluation
    K = max(n, t, 8 * NB, 8 * TB) + 4
    jt = cbmcrun.Job(base + '.tables', [harness], 'h_tables', wd, dfcc=False, includes=[HERE], defines=defines,
                     cbmc_flags=['--drop-unused-functions', '--unwind', str(max(K, 260)), '--unwinding-assertions'],
                     timeout=1200, mem_gb=12, meta={'doc': name})
    rt = cbmcrun.verify(jt)
    if rt['status'] == 'error' and rt['reason'].startswith('goto-cc failed') and os.path.basename(cfile) in rt['reason']:
        # the emitted file itself is not valid C (it references a function the transpiler did not emit, an initialiser
        # list is longer than the array the sizing macros declare, ...): an obligation of C04 in its own right
        m = re.search(r'error: [^\n]*', rt['reason'])
        res['tables'] = {'name': base + '.tables', 'status': 'ok', 'reason': '', 'obligations': 1, 'discharged': 0, 'canaries_fired': 1, 'canaries_total': 1,
                         'time': rt.get('time', {}), 'classes': {}, 'samples': [], 'tags': {'C04': [1, 0]}, 'checker_cmd': 'goto-cc ' + cfile,
                         'failed': [{'property': 'emitted_c.compile', 'tag': 'C04', 'location': {'file': cfile},
                                     'description': 'C04.compile: the emitted file is valid C with the sizing macros the generator itself emits (%s)' % (m.group(0)[:200] if m else 'goto-cc error')}]}
        res['step'] = {}
        return res
    res['tables'] = slim(rt)
    if index == 0:
        rp = verify_pml(name, path, wd, base, defines, n, t)
        res['pml'] = slim(rp) if rp.get('status') != 'skip' else rp
    # ---- step (C04 Level D + C02)
    lines = ctext.split('\n')
    l_goto = find_line(lines, r'^\s*goto DEQUEUE_EVENT;')
    l_mi = find_line(lines, r'/\* manage invocations \*/')
    l_inv = find_line(lines, r'for \(i = 0; i < USCXML_NUMBER_STATES; i\+\+\) \{', l_mi or 0) if l_mi else None
    l_sel0 = find_line(lines, r'^SELECT_TRANSITIONS:')
    l_sel = find_line(lines, r'for \(i = 0; i < USCXML_NUMBER_TRANS; i\+\+\) \{', l_sel0 or 0) if l_sel0 else None
    if not (l_goto and l_inv and l_sel):
        res.update(status='error', reason='loop map out of date: cannot find the DEQUEUE_EVENT back-edge / inner loops in the emitted step function')
        return res
    nested = nested_history(info, facts)
    d2 = dict(defines, STEP_CONTRACT=None)
    if nested:
        d2['SKIP_HIST'] = None
    inv, assigns = step_loop_contract(nb, tb, info['prefix'])
    assigns[-1] = '__CPROVER_object_upto(ctx->invocations, %d)' % NB
    lc = {"functions": [{"uscxml_step": [{
        "loop_id": "GOTO", "assigns": ", ".join(assigns), "invariants": " && ".join(inv),
        "symbol_map": "ctx,uscxml_step::ctx;i,uscxml_step::1::i;conflicts,uscxml_step::1::conflicts;exit_set,uscxml_step::1::exit_set;target_set,uscxml_step::1::target_set;trans_set,uscxml_step::1::trans_set"}]}]}
    l_label = find_line(lines, r'^DEQUEUE_EVENT:')
    parts = verify_step(base, wd, harness, d2, l_inv, l_sel, l_goto, l_label, lc, n, t, NB, TB, name)
    res['step'] = {k: slim(v) for k, v in parts.items()}
    res['nested_history'] = nested
    if nested and name.startswith('corpus/'):
        # bounded stand-in for the hand-written nested-history charts: REACH_K real steps from initialisation
        res['step']['R'] = slim(verify_reach(base, wd, harness, defines, l_goto, l_label, n, t, NB, TB, name))
    return res


def verify_reach(base, wd, harness, defines, l_goto, l_label, n, t, NB, TB, name, k=9):
    log = os.path.join(wd, base + '.reach.log')
    open(log, 'w').close()
    a = os.path.join(wd, base + '.reach.a.gb')
    b = os.path.join(wd, base + '.reach.b.gb')
    ok, msg = _goto_cc('h_reach', a, dict(defines, REACH_K=str(k)), harness, log)
    if not ok:
        return _err(base + '.reach', 'goto-cc: ' + msg)
    gid, ids = _goto_line_ids(a, (l_goto, l_label, (l_label or 0) + 1), log)
    if gid is None:
        return _err(base + '.reach', 'loop map out of date: DEQUEUE_EVENT back-edge not found')
    # three passes of the DEQUEUE_EVENT loop per step: the empty spontaneous pass, one ignored event, the event taken
    rc, o, e, dt = cbmcrun.run(['goto-instrument', '--unwindset', 'uscxml_step.%s:3' % gid, '--no-unwinding-assertions', a, b], 600, 12, log=log)
    if rc != 0:
        return _err(base + '.reach', 'cutting the goto loop failed: ' + (e + o)[-300:])
    K = max(n, t, 8 * NB, 8 * TB) + 4
    job = cbmcrun.Job(base + '.reach', [b], 'h_reach', wd, dfcc=False,
                      cbmc_flags=['--drop-unused-functions', '--unwind', str(max(K, 40)), '--unwinding-assertions'],
                      timeout=2400, mem_gb=16, meta={'doc': name, 'part': 'R', 'REACH_K': k})
    job.prebuilt = True
    r = cbmcrun.verify(job)
    for f in (a, b):
        if os.path.exists(f) and not os.environ.get('VERIF_KEEP'):
            os.remove(f)
    return r


def nested_history(info, facts):
    """does some history's parent have a proper descendant that itself has a history child?"""
    kinds = info['kinds']
    m = re.search(r'd_parent\[D_N\] = \{ ([^}]*) \}', facts)
    par = [int(x) for x in m.group(1).split(',')]
    def desc(d, a):
        x = d
        for _ in range(len(par)):
            if x == 0:
                return False
            x = par[x]
            if x == a:
                return True
        return False
    hs = [i for i, k in enumerate(kinds) if k in (4, 5)]
    for h in hs:
        for h2 in hs:
            if h2 != h and desc(par[h2], par[h]):
                return True
    return False


def _err(name, reason):
    return {'name': name, 'status': 'error', 'reason': reason, 'obligations': 0, 'discharged': 0, 'failed': [],
            'canaries_fired': 0, 'canaries_total': 0, 'time': {}, 'classes': {}, 'samples': [], 'tags': {}}


def _goto_cc(entry, out, defines, harness, log):
    cmd = ['goto-cc', '--function', entry, '-o', out, '-I', HERE] + ['-D%s=%s' % (k, v) if v is not None else '-D%s' % k for k, v in defines.items()] + [harness]
    rc, o, e, dt = cbmcrun.run(cmd, 300, 8, log=log)
    return rc == 0, (e or o)[-600:]


FP_TYPES = {
    'signed int (const uscxml_ctx *, const uscxml_state *, const void *)': 'exec',
    'signed int (const uscxml_ctx *, const uscxml_transition *)': 'enabled',
    'signed int (const uscxml_ctx *, const uscxml_state *, const uscxml_elem_invoke *, unsigned char)': 'invoke',
    'signed int (const uscxml_ctx *, const uscxml_transition *, const void *)': 'matched',
    'signed int (const uscxml_ctx *, const uscxml_state *, const uscxml_elem_donedata *)': 'done',
    'void * (const uscxml_ctx *)': 'dequeue',
    'signed int (const uscxml_ctx *, const uscxml_elem_data *)': 'init',
}


def restrict_function_pointers(a, out, ctext, log):
    """CBMC resolves a call through a function pointer to every address-taken function whose type is compatible
    MODULO pointer target types, so ctx->is_matched 'may call' every emitted on_entry function and vice versa; dfcc's
    loop instrumentation inlines all of that transitively (the 29 GB of test388).  The call sites of uscxml_step are
    restricted to the functions of the right ROLE (emitted handlers of that signature / the harness stub); CBMC keeps an
    assertion 'pointer must be one of [...]' at every restricted site, so the restriction is checked, not assumed."""
    roles = {
        'exec': re.findall(r'static int (\w+)\(const uscxml_ctx\* ctx, const uscxml_state\* state, const void\* event\)', ctext),
        'enabled': re.findall(r'static int (\w+)\(const uscxml_ctx\* ctx, const uscxml_transition\* transition\)', ctext),
        'invoke': re.findall(r'static int (\w+)\(const uscxml_ctx\* ctx, const uscxml_state\* s, const uscxml_elem_invoke\* \w+, unsigned char uninvoke\)', ctext) + ['stub_invoke'],
        'matched': ['stub_is_matched'], 'done': ['stub_raise_done_event'], 'dequeue': ['stub_dequeue_internal', 'stub_dequeue_external'], 'init': ['stub_init'],
    }
    restr = {}
    for k in range(1, 80):
        name = 'uscxml_step.function_pointer_call.%d' % k
        rc, o, e, dt = cbmcrun.run(['goto-instrument', '--restrict-function-pointer', name + '/h_glue', a, out + '.probe'], 120, 8)
        msg = e + o
        m = re.search(r"points to `([^']*)'", msg)
        if not m:
            break
        role = FP_TYPES.get(m.group(1))
        if role and roles.get(role):
            restr[name] = sorted(set(roles[role]))
    if os.path.exists(out + '.probe'):
        os.remove(out + '.probe')
    # call sites inside the emitted functions: ctx-><callback>(...) in textual order -> the harness stub of that callback
    CB = {'exec_content_log': 'stub_log', 'exec_content_raise': 'stub_raise', 'exec_content_send': 'stub_send',
          'exec_content_foreach_init': 'stub_foreach_init', 'exec_content_foreach_next': 'stub_foreach_next',
          'exec_content_foreach_done': 'stub_foreach_done', 'exec_content_assign': 'stub_assign', 'exec_content_init': 'stub_init',
          'exec_content_cancel': 'stub_cancel', 'exec_content_script': 'stub_script', 'is_true': 'stub_is_true', 'invoke': 'stub_invoke',
          'is_matched': 'stub_is_matched', 'raise_done_event': 'stub_raise_done_event'}
    for m in re.finditer(r'^static int (\w+)\([^)]*\) \{\n(.*?)^\}', ctext, re.S | re.M):
        fn, body = m.group(1), m.group(2)
        k = 0
        for c in re.finditer(r'ctx->(\w+)\(', body):
            k += 1
            if c.group(1) in CB:
                restr['%s.function_pointer_call.%d' % (fn, k)] = [CB[c.group(1)]]
    if not restr:
        return a, 0
    rf = out + '.fp.json'
    json.dump(restr, open(rf, 'w'), indent=1)
    rc, o, e, dt = cbmcrun.run(['goto-instrument', '--function-pointer-restrictions-file', rf, a, out], 300, 8, log=log)
    if rc != 0:
        return a, 0
    return out, len(restr)


def _goto_line_ids(binary, lines_wanted, log):
    ids = loop_ids(binary, 'uscxml_step', log)
    for lid, (f, ln) in ids.items():
        if ln in lines_wanted:
            return lid, ids
    return None, ids


def verify_step(base, wd, harness, defines, l_inv, l_sel, l_goto, l_label, lc, n, t, NB, TB, name):
    """Three machine-checked pieces (see DESIGN.md, C04 'closing the DEQUEUE_EVENT loop'):
       B  h_step : dfcc --enforce-contract uscxml_step; the goto loop executes ONE pass (back-edge -> assume false);
                   every other loop unwound by CBMC with unwinding assertions (bounds are table constants)
       A  h_loop : dfcc + loop contract on the goto loop (unbounded); loops nested in it fully unwound, loops after
                   it cut after one iteration (irrelevant for the invariant)
       G  h_glue : states related by the loop invariant are valid pre-states of the same kind"""
    log = os.path.join(wd, base + '.step.log')
    open(log, 'w').close()
    goto_lines = (l_goto, l_label, (l_label or 0) + 1)
    K = max(n, t, 8 * NB, 8 * TB) + 4
    mseq = re.search(r'#define D_SEQ (\d+)', open(defines['DOC_FACTS'].strip('"')).read())
    if mseq:
        K = max(K, int(mseq.group(1)) + 4)   # the harness loops over the numbered executable elements
    out = {}
    # ---------- B
    a = os.path.join(wd, base + '.stepB.a.gb')
    b = os.path.join(wd, base + '.stepB.b.gb')
    ok, msg = _goto_cc('h_step', a, dict(defines, SPEC_ANS='1'), harness, log)
    if not ok:
        return {'B': _err(base + '.stepB', 'goto-cc: ' + msg)}
    ctext = open(defines['GENC_FILE'].strip('"'), errors='replace').read()
    a, nrestr = restrict_function_pointers(a, a + '.r.gb', ctext, log)
    gid, ids = _goto_line_ids(a, goto_lines, log)
    if gid is None:
        return {'B': _err(base + '.stepB', 'loop map out of date: DEQUEUE_EVENT back-edge not among the loops of uscxml_step: %s' % sorted(ids.items()))}
    rc, o, e, dt = cbmcrun.run(['goto-instrument', '--unwindset', 'uscxml_step.%s:1' % gid, '--no-unwinding-assertions', a, b], 600, 12, log=log)
    if rc != 0:
        return {'B': _err(base + '.stepB', 'cutting the goto loop failed: ' + (e + o)[-400:])}
    job = cbmcrun.Job(base + '.stepB', [b], 'h_step', wd, enforce='uscxml_step',
                      cbmc_flags=['--drop-unused-functions', '--unwind', str(max(K, 40)), '--unwindset', 'sps_streq.0:260', '--unwinding-assertions'],
                      timeout=2400, mem_gb=16, meta={'doc': name, 'part': 'B'})
    job.prebuilt = True
    out['B'] = cbmcrun.verify(job)
    # ---------- A
    a2 = os.path.join(wd, base + '.stepA.a.gb')
    b2 = os.path.join(wd, base + '.stepA.b.gb')
    c2 = os.path.join(wd, base + '.stepA.c.gb')
    ok, msg = _goto_cc('h_loop', a2, defines, harness, log)
    if not ok:
        out['A'] = _err(base + '.stepA', 'goto-cc: ' + msg)
        return out
    a2, _ = restrict_function_pointers(a2, a2 + '.r.gb', ctext, log)
    ids = loop_ids(a2, 'uscxml_step', log)
    by_line = {ln: lid for lid, (f, ln) in ids.items()}
    if l_inv not in by_line or l_sel not in by_line:
        out['A'] = _err(base + '.stepA', 'loop map out of date: inner loops at lines %s/%s not found in %s' % (l_inv, l_sel, sorted(by_line)))
        return out
    M = max(NB, TB) + 1
    us = ['uscxml_step.%s:%d' % (by_line[l_inv], n + 1), 'uscxml_step.%s:%d' % (by_line[l_sel], t + 1)]
    for fn in ('bit_has_and', 'bit_clear_all', 'bit_has_any', 'bit_or', 'bit_copy', 'bit_and_not', 'bit_and'):
        us.append('%s.0:%d' % (fn, M))
    rc, o, e, dt = cbmcrun.run(['goto-instrument', '--unwindset', ','.join(us), '--unwinding-assertions', a2, b2], 600, 12, log=log)
    if rc != 0:
        out['A'] = _err(base + '.stepA', 'pre-unwinding failed: ' + (e + o)[-400:])
        return out
    # cut every remaining loop except the goto loop (all functions reachable from the step function)
    allloops = cbmcrun.show_loops(b2, log)
    gid = None
    cut = []
    for (fn, lid), (f, ln) in sorted(allloops.items()):
        if fn == 'uscxml_step' and ln in goto_lines:
            gid = lid
        elif f.endswith('.c') and os.path.basename(f) == os.path.basename(defines['GENC_FILE'].strip('"')):
            cut.append('%s.%s:1' % (fn, lid))
    if gid is None:
        out['A'] = _err(base + '.stepA', 'loop map out of date: DEQUEUE_EVENT loop not found after pre-unwinding')
        return out
    cur = b2
    if cut:
        rc, o, e, dt = cbmcrun.run(['goto-instrument', '--unwindset', ','.join(cut), '--no-unwinding-assertions', b2, c2], 600, 12, log=log)
        if rc != 0:
            out['A'] = _err(base + '.stepA', 'cutting post-loop loops failed: ' + (e + o)[-400:])
            return out
        cur = c2
    gid2, ids2 = _goto_line_ids(cur, goto_lines, log)
    rest = [k for k in ids2 if k != gid2]
    if gid2 is None or rest:
        out['A'] = _err(base + '.stepA', 'loop map out of date: after cutting, uscxml_step has loops %s (goto loop %s)' % (sorted(ids2.items()), gid2))
        return out
    lc['functions'][0]['uscxml_step'][0]['loop_id'] = gid2
    lcf = os.path.join(wd, base + '.loops.json')
    json.dump(lc, open(lcf, 'w'), indent=1)
    job = cbmcrun.Job(base + '.stepA', [cur], 'h_loop', wd, enforce='uscxml_step', loop_contracts_file=lcf, apply_loop_contracts=True,
                      cbmc_flags=['--drop-unused-functions', '--unwind', str(max(K, 40)), '--unwinding-assertions'],
                      timeout=2400, mem_gb=10, meta={'doc': name, 'part': 'A'})
    job.instrument_timeout = 240
    job.prebuilt = True
    out['A'] = cbmcrun.verify(job)
    # ---------- G
    jg = cbmcrun.Job(base + '.glue', [harness], 'h_glue', wd, dfcc=False, includes=[HERE], defines=defines,
                     cbmc_flags=['--drop-unused-functions', '--unwind', str(max(K, 40)), '--unwinding-assertions'],
                     timeout=1200, mem_gb=12, meta={'doc': name, 'part': 'G'})
    out['G'] = cbmcrun.verify(jg)
    for f in (a, b, a2, b2, c2, a.replace('.r.gb', ''), a2.replace('.r.gb', ''), a.replace('.r.gb', '') + '.r.gb.fp.json', a2.replace('.r.gb', '') + '.r.gb.fp.json'):
        if os.path.exists(f) and not os.environ.get('VERIF_KEEP'):
            os.remove(f)
    return out


def slim(r):
    return {k: r.get(k) for k in ('name', 'status', 'reason', 'obligations', 'discharged', 'failed', 'canaries_fired', 'canaries_total', 'time', 'classes', 'samples', 'checker_cmd', 'tags')}


def run_all(tier):
    """returns the result dict for all documents (cached)"""
    wd = os.path.join(common.WORK, 'genc')
    os.makedirs(wd, exist_ok=True)
    err = ensure_transform()
    if err:
        return {'fatal': 'cannot build uscxml-transform from %s: %s' % (common.REPO, err)}
    dg = digest()
    cache = os.path.join(wd, 'results_%s.json' % tier)
    if os.path.exists(cache) and not os.environ.get('VERIF_NOCACHE'):
        try:
            c = json.load(open(cache))
            if c.get('digest') == dg and c.get('seed') == common.seed() and time.time() - c.get('when', 0) < 6 * 3600:
                c['cached'] = True
                return c
        except Exception:
            pass
    docs = corpus(tier)
    t0 = time.time()
    jobs = [(name, path, wd, tier) for name, path in docs]
    with ThreadPoolExecutor(max(1, common.NCPU)) as ex:
        results = list(ex.map(verify_doc, jobs))
    out = {'digest': dg, 'seed': common.seed(), 'when': time.time(), 'tier': tier, 'docs': results, 'wall_s': round(time.time() - t0, 1), 'cached': False}
    json.dump(out, open(cache, 'w'), indent=1, default=str)
    return out


if __name__ == '__main__':
    if len(sys.argv) > 2 and sys.argv[1] == 'one':
        wd = os.path.join(common.WORK, 'genc')
        os.makedirs(wd, exist_ok=True)
        print(ensure_transform())
        r = verify_doc((os.path.basename(sys.argv[2]), sys.argv[2], wd, 'quick'))
        items = [('tables', r.get('tables'))] + [('step' + k, v) for k, v in sorted((r.get('step') or {}).items())]
        for k, x in items:
            if x:
                print(k, x['status'], x['reason'][:1500], x['obligations'], x['discharged'], x['canaries_fired'], x['canaries_total'], x['time'])
                for f in x['failed'][:10]:
                    print('   FAILED', f['property'], f['description'], [(t['lhs'], t['value']) for t in (f.get('trace') or []) if t['lhs'] and t['lhs'].startswith('wit_')][-90:])
        print({k: v for k, v in r.items() if k not in ('tables', 'step')})
    else:
        r = run_all(sys.argv[1] if len(sys.argv) > 1 else 'quick')
        print(json.dumps({k: v for k, v in r.items() if k != 'docs'}))
        for d in r.get('docs', []):
            print(d['name'], d['status'], d.get('skip') or d.get('reason'), d['tables'] and (d['tables']['status'], d['tables']['obligations'], d['tables']['discharged']), d['step'] and [(k, v['status'], v['obligations'], v['discharged'], v['time'].get('cbmc')) for k, v in sorted(d['step'].items())])
