#!/bin/sh
# Out-of-tree build of /repo's CURRENT WORKING TREE (incremental: ninja rebuilds what changed).
# usage: ensure_build.sh [target ...]   default targets: uscxml-transform test-state-pass
set -e
REPO="${VERIF_REPO:-/repo}"
HERE="$(cd "$(dirname "$0")/.." && pwd)"
B="${VERIF_BUILD:-$HERE/build}"
if [ ! -f "$B/build.ninja" ]; then
  mkdir -p "$B"
  cmake -G Ninja -S "$REPO" -B "$B" -DCMAKE_BUILD_TYPE=RelWithDebInfo -DCMAKE_CXX_FLAGS=-Wno-error -DCMAKE_C_FLAGS=-Wno-error > "$B/configure.log" 2>&1 || { tail -30 "$B/configure.log"; exit 2; }
fi
if [ $# -eq 0 ]; then set -- uscxml-transform test-state-pass; fi
cmake --build "$B" -j"${VERIF_JOBS:-16}" --target "$@" > "$B/build.log" 2>&1 || { tail -40 "$B/build.log"; exit 2; }
