/* Native replay / counterexample search for the jsmn contracts: the REAL jsmn.c is included
 * (-DJSMN_C="\"/repo/contrib/src/jsmn/jsmn.c\"") and compiled with ASan+UBSan; the contract
 * postconditions of engines/jsmn/contracts.h are evaluated at run time.
 *   replay_jsmn one <hex-bytes> <budget>      check one input
 *   replay_jsmn search <maxlen> <maxbudget>   enumerate inputs over a JSON-relevant alphabet
 * exit 0: contract held on everything tried; exit 1: violated (prints REPRODUCED ...). */
#include <stdio.h>
#include <string.h>
#include <stdlib.h>
#include "jsmn.h"
#include JSMN_C

static const char *why;
static int fail(const char *w) { why = w; return 0; }

static int tokwf(const jsmntok_t *t, unsigned b) {
  if (!(t->start >= 0 && (unsigned)t->start < b)) return 0;
  if (t->end == -1) return t->type == JSMN_OBJECT || t->type == JSMN_ARRAY;
  if (!(t->start <= t->end && (unsigned)t->end <= b)) return 0;
  return t->type == JSMN_STRING ? (t->start >= 1 && (unsigned)t->end < b) : t->start < t->end;
}
static int tq(const jsmntok_t *t) { return t->type == JSMN_STRING ? 1 : 0; }
static int laminar(const jsmntok_t *a, const jsmntok_t *b) {
  if (a->end == -1) return a->start < b->start - tq(b);
  if (a->end + tq(a) <= b->start - tq(b)) return 1;
  return (a->type == JSMN_OBJECT || a->type == JSMN_ARRAY) && a->start < b->start - tq(b) && b->end != -1 && b->end + tq(b) < a->end;
}

/* returns 1 if all contracts held */
static int check(const char *bytes, size_t n, unsigned budget) {
  char *js = malloc(n + 1);            /* exact size: ASan reports any over-read */
  memcpy(js, bytes, n); js[n] = 0;
  size_t len = strlen(js);
  /* EXACTLY budget tokens (one byte for budget 0): ASan reports any access to tokens[budget] */
  jsmntok_t *t = calloc(budget ? budget : 1, sizeof(jsmntok_t));
  jsmn_parser p;
  int ok = 1;
  jsmn_init(&p);
  if (!(p.pos == 0 && p.toknext == 0 && p.toksuper == -1)) ok = fail("jsmn_init postcondition");
  jsmnerr_t r = jsmn_parse(&p, js, t, budget);
  if (ok && !(r == 0 || r == -1 || r == -2 || r == -3)) ok = fail("jsmn_parse result code");
  if (ok && !(p.pos <= len && p.toknext >= 0 && (unsigned)p.toknext <= budget && p.toksuper >= -1 && p.toksuper < p.toknext)) ok = fail("jsmn_parse parser invariant PI");
  for (int i = 0; ok && i < (int)(budget ? budget : 1); i++) {
    if (i >= p.toknext) {
      if (t[i].type || t[i].start || t[i].end || t[i].size) ok = fail("jsmn_parse touched a token it did not hand out (sentinel)");
    } else {
      if (!tokwf(&t[i], p.pos)) ok = fail("jsmn_parse token extent outside consumed input");
      if (!(t[i].size >= 0 && (unsigned)t[i].size <= p.pos)) ok = fail("jsmn_parse token size bound");
      for (int j = i + 1; ok && j < p.toknext; j++) if (!laminar(&t[i], &t[j])) ok = fail("jsmn_parse tokens not ordered / extents not laminar");
      if (r == JSMN_SUCCESS && !(0 <= t[i].start && t[i].start <= t[i].end && (unsigned)t[i].end <= p.pos)) ok = fail("jsmn_parse success with open token");
    }
  }
  if (ok && r == JSMN_SUCCESS && js[p.pos] != 0) ok = fail("jsmn_parse success before end of input");
  if (ok && r == JSMN_ERROR_NOMEM && (unsigned)p.toknext != budget) ok = fail("jsmn_parse NOMEM with free tokens");
  /* the two scanners at every position where their precondition holds */
  for (size_t pos = 0; ok && pos < len; pos++) {
    for (int which = 0; ok && which < 2; which++) {
      char c = js[pos];
      int delim = (c == '\t' || c == '\r' || c == '\n' || c == ' ' || c == ',' || c == ']' || c == '}' || c == ':');
      if (which == 0 && c != '"') continue;
      if (which == 1 && delim) continue;
      jsmntok_t *t2 = calloc(budget ? budget : 1, sizeof(jsmntok_t));
      jsmn_parser q; q.pos = (unsigned)pos; q.toknext = 0; q.toksuper = -1;
      jsmnerr_t r2 = which == 0 ? jsmn_parse_string(&q, js, t2, budget) : jsmn_parse_primitive(&q, js, t2, budget);
      const char *nm = which == 0 ? "jsmn_parse_string" : "jsmn_parse_primitive";
      static char buf[128];
      if (!(q.pos <= len && q.toknext >= 0 && (unsigned)q.toknext <= budget && q.toksuper == -1)) { snprintf(buf, sizeof buf, "%s parser invariant", nm); ok = fail(buf); }
      else if (r2 != JSMN_SUCCESS) {
        if (!(q.pos == pos && q.toknext == 0)) { snprintf(buf, sizeof buf, "%s failure does not restore pos/toknext", nm); ok = fail(buf); }
        if ((t2[0].type || t2[0].start || t2[0].end || t2[0].size)) { snprintf(buf, sizeof buf, "%s failure touched the next token", nm); ok = fail(buf); }
        if (r2 == JSMN_ERROR_NOMEM && budget != 0) { snprintf(buf, sizeof buf, "%s NOMEM with free tokens", nm); ok = fail(buf); }
        if (!(r2 == -1 || r2 == -2 || (which == 0 && r2 == -3))) { snprintf(buf, sizeof buf, "%s result code", nm); ok = fail(buf); }
      } else if (which == 0) {
        if (!(q.toknext == 1 && q.pos > pos && q.pos < len && js[q.pos] == '"' && t2[0].type == JSMN_STRING && t2[0].size == 0 && t2[0].start == (int)pos + 1 && t2[0].end == (int)q.pos)) { ok = fail("jsmn_parse_string success postcondition"); }
        for (size_t k = pos + 1; ok && k < q.pos; k++) {
          if (js[k] == 0) ok = fail("jsmn_parse_string NUL inside token");
          if (js[k] == '"' && js[k - 1] != '\\') ok = fail("jsmn_parse_string unescaped quote inside token");
        }
      } else {
        char nx = js[q.pos + 1];
        int nd = (nx == 0 || nx == '\t' || nx == '\r' || nx == '\n' || nx == ' ' || nx == ',' || nx == ']' || nx == '}' || nx == ':');
        if (!(q.toknext == 1 && q.pos >= pos && q.pos < len && nd && t2[0].type == JSMN_PRIMITIVE && t2[0].size == 0 && t2[0].start == (int)pos && t2[0].end == (int)q.pos + 1)) { ok = fail("jsmn_parse_primitive success postcondition"); }
        for (size_t k = pos; ok && k <= q.pos; k++)
          if (!(js[k] >= 32 && js[k] < 127)) ok = fail("jsmn_parse_primitive non-printable byte inside token");
      }
      free(t2);
    }
  }
  free(t); free(js);
  return ok;
}

static void report(const char *bytes, size_t n, unsigned budget) {
  printf("REPRODUCED input=");
  for (size_t i = 0; i < n; i++) printf("%02x", (unsigned char)bytes[i]);
  printf(" budget=%u what=%s\n", budget, why);
  fflush(stdout);
}

int main(int argc, char **argv) {
  if (argc >= 4 && !strcmp(argv[1], "one")) {
    size_t n = strlen(argv[2]) / 2; char *b = malloc(n + 1);
    for (size_t i = 0; i < n; i++) { unsigned v; sscanf(argv[2] + 2 * i, "%2x", &v); b[i] = (char)v; }
    unsigned budget = (unsigned)atoi(argv[3]);
    int held = check(b, n, budget);
    if (!held) report(b, n, budget); else printf("HELD\n");
    free(b);
    return held ? 0 : 1;
  }
  if (argc >= 4 && !strcmp(argv[1], "search")) {
    static const char alpha[] = "{}[]\"\\:, a1u\x01\x80\t";
    int na = (int)sizeof(alpha) - 1, maxlen = atoi(argv[2]), maxb = atoi(argv[3]);
    char buf[16]; unsigned long tried = 0;
    for (int len = 0; len <= maxlen && len < 15; len++) {
      int idx[16] = {0};
      for (;;) {
        for (int i = 0; i < len; i++) buf[i] = alpha[idx[i]];
        for (int b = 0; b <= maxb; b++) { tried++; if (!check(buf, len, b)) { report(buf, len, b); return 1; } }
        int i = 0; while (i < len && ++idx[i] == na) idx[i++] = 0;
        if (i == len) break;
      }
    }
    printf("HELD tried=%lu\n", tried); return 0;
  }
  fprintf(stderr, "usage: replay_jsmn one <hex> <budget> | search <maxlen> <maxbudget>\n");
  return 2;
}
