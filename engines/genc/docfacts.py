"""Independent reading of an SCXML document (python xml.etree, TRUSTED, no uscxml code involved) and
generation of the C constants against which the emitted tables are validated (C05) and over which
the legality invariant is phrased (C02).

The facts are expressed in the INDEX SPACE OF THE EMITTED TABLES: emitted state k is matched to a
document element by id (named states) or by (matched parent, kind, ordinal among the id-less siblings
of that kind).  The matching only fixes the correspondence; every column of every row is then compared
by CBMC against the emitted C tables themselves (not against this script's reading of them)."""
import re
import xml.etree.ElementTree as ET

STATE_TAGS = ('scxml', 'state', 'parallel', 'final', 'history', 'initial')
K_SCXML, K_STATE, K_PARALLEL, K_FINAL, K_HSHALLOW, K_HDEEP, K_INITIAL = range(7)


class DocError(Exception):
    pass


def _local(tag):
    return tag.split('}', 1)[1] if '}' in tag else tag


def nested_machines(path):
    """<scxml> elements nested directly in <invoke><content> of the top machine, in document order of the invokes
    (ChartToC::findNestedMachines); None if the document uses forms this reader does not follow (src=, deeper nesting)."""
    try:
        root = ET.parse(path).getroot()
    except ET.ParseError as e:
        raise DocError('cannot parse %s: %s' % (path, e))
    ns = root.tag[:-len('scxml')]
    found, exotic = [], [False]

    def walk(el, depth):
        for ch in el:
            if not isinstance(ch.tag, str):
                continue
            t = _local(ch.tag)
            if t == 'invoke' and ch.tag.startswith(ns):
                ty = ch.get('type')
                if ty is not None and ty not in ('scxml', 'http://www.w3.org/TR/scxml/'):
                    continue
                if ch.get('src') is not None:
                    exotic[0] = True
                    continue
                contents = [c for c in ch if isinstance(c.tag, str) and _local(c.tag) == 'content']
                if not contents:
                    continue
                sc = [c for c in contents[0] if isinstance(c.tag, str) and _local(c.tag) == 'scxml']
                if not sc:
                    continue
                found.append(sc[0])
                if any(_local(x.tag) == 'invoke' for x in sc[0].iter() if isinstance(x.tag, str)):
                    exotic[0] = True
            elif t in ('state', 'parallel', 'final'):
                walk(ch, depth + 1)
    walk(root, 0)
    return None if exotic[0] else found


def read_doc(path, root=None):
    """-> list of elements (document pre-order), each dict(kind,id,parent,children,initial,transitions,has_initial_child)"""
    if root is None:
        try:
            root = ET.parse(path).getroot()
        except ET.ParseError as e:
            raise DocError('cannot parse %s: %s' % (path, e))
    if _local(root.tag) != 'scxml':
        raise DocError('root is not <scxml>')
    ns = root.tag[:-len('scxml')]
    elems = []

    def walk(el, parent):
        tag = _local(el.tag)
        if tag == 'history':
            kind = K_HDEEP if (el.get('type') or '').lower() == 'deep' else K_HSHALLOW
        else:
            kind = {'scxml': K_SCXML, 'state': K_STATE, 'parallel': K_PARALLEL, 'final': K_FINAL, 'initial': K_INITIAL}[tag]
        me = len(elems)
        d = {'kind': kind, 'id': el.get('id') if tag != 'scxml' else None, 'parent': parent, 'children': [], 'docpos': me,
             'initial': (el.get('initial') or '').split() if tag in ('scxml', 'state') else [],
             'has_initial_attr': el.get('initial') is not None and tag in ('scxml', 'state'),
             'transitions': [], 'el': el, 'lognum': -1, 'lognum_ok': True}
        # ORDER_LOG convention (corpus/c12, corpus/gen_charts.py): <onentry><log expr="Enn"/>, <onexit><log expr="Xnn"/> with the same nn
        nums = {}
        for ch in el:
            if isinstance(ch.tag, str) and ch.tag.startswith(ns) and _local(ch.tag) in ('onentry', 'onexit'):
                logs = [g for g in ch if isinstance(g.tag, str) and _local(g.tag) == 'log']
                others = [g for g in ch if isinstance(g.tag, str) and _local(g.tag) != 'log']
                m = re.match(r'^([EX])(\d\d)$', logs[0].get('expr') or '') if len(logs) == 1 and not others else None
                if m and m.group(1) == ('E' if _local(ch.tag) == 'onentry' else 'X') and _local(ch.tag) not in nums:
                    nums[_local(ch.tag)] = int(m.group(2))
                else:
                    d['lognum_ok'] = False
        if d['lognum_ok'] and len(nums) == 2 and nums['onentry'] == nums['onexit']:
            d['lognum'] = nums['onentry']
        else:
            d['lognum_ok'] = False
        elems.append(d)
        if parent is not None:
            elems[parent]['children'].append(me)
        for ch in el:
            if not isinstance(ch.tag, str) or not ch.tag.startswith(ns):
                continue
            t = _local(ch.tag)
            if t == 'transition':
                d['transitions'].append({'targets': (ch.get('target') or '').split(), 'has_target': ch.get('target') is not None,
                                         'internal': (ch.get('type') or '').lower() == 'internal',
                                         'event': ch.get('event'), 'cond': ch.get('cond'),
                                         'has_content': any(isinstance(g.tag, str) for g in ch), 'el': ch,
                                         'lognum': (lambda kids: int(kids[0].get('expr')[1:]) if len(kids) == 1 and _local(kids[0].tag) == 'log' and re.match(r'^T\d\d$', kids[0].get('expr') or '') else -1)([g for g in ch if isinstance(g.tag, str)])})
            elif t in STATE_TAGS and t != 'scxml':
                walk(ch, me)
        return me

    walk(root, None)
    return elems


def parse_emitted(ctext, index=0):
    """Correspondence data only: names/parents/kinds of the emitted states and sources of the emitted
    transitions of the index-th machine of the file (0 = the top machine, USCXML_MACHINE)."""
    prefixes = re.findall(r'#\s*define\s+USCXML_MACHINE\s+(\w+)_machine\b', ctext)
    if not prefixes or index >= len(prefixes):
        raise DocError('machine %d not defined in emitted file (%d machines)' % (index, len(prefixes)))
    prefix = prefixes[index]
    ms = re.search(r'static const uscxml_state %s_states\[(\d+)\] = \{(.*?)\n\};' % re.escape(prefix), ctext, re.S)
    if not ms:
        raise DocError('states array of %s not found' % prefix)
    n = int(ms.group(1))
    names = re.findall(r'/\* name\s+\*/ (NULL|"(?:\\.|[^"\\])*"),', ms.group(2))
    parents = [int(x) for x in re.findall(r'/\* parent\s+\*/ (\d+),', ms.group(2))]
    types = re.findall(r'/\* type\s+\*/ (USCXML_STATE_\w+)', ms.group(2))
    if not (len(names) == len(parents) == len(types) == n):
        raise DocError('cannot parse the emitted states array (%d names, %d parents, %d types, n=%d)' % (len(names), len(parents), len(types), n))
    mt = re.search(r'static const uscxml_transition %s_transitions\[(\d+)\] = \{(.*?)\n\};' % re.escape(prefix), ctext, re.S)
    tsrc = []
    if mt:
        tsrc = [int(x) for x in re.findall(r'/\* source\s+\*/ (\d+),', mt.group(2))]
        if len(tsrc) != int(mt.group(1)):
            raise DocError('cannot parse the emitted transitions array')
    machines = len(re.findall(r'static const uscxml_state \w+_states\[\d+\] = \{', ctext))
    sizes = [(int(a), 0) for a in re.findall(r'static const uscxml_state \w+_states\[(\d+)\]', ctext)]
    tsizes = [int(a) for a in re.findall(r'static const uscxml_transition \w+_transitions\[(\d+)\]', ctext)]
    return {'prefix': prefix, 'n': n, 'names': [None if x == 'NULL' else x[1:-1] for x in names], 'parents': parents,
            'types': types, 'tsrc': tsrc, 'machines': machines, 'all_nr_states': [s[0] for s in sizes], 'all_nr_trans': tsizes}


TYPE_KIND = {'USCXML_STATE_INITIAL': (K_INITIAL,), 'USCXML_STATE_FINAL': (K_FINAL,), 'USCXML_STATE_HISTORY_DEEP': (K_HDEEP,),
             'USCXML_STATE_HISTORY_SHALLOW': (K_HSHALLOW,), 'USCXML_STATE_ATOMIC': (K_STATE,), 'USCXML_STATE_PARALLEL': (K_PARALLEL,),
             'USCXML_STATE_COMPOUND': (K_STATE, K_SCXML)}


def match(elems, em):
    """emitted index -> document element index"""
    if em['n'] != len(elems):
        raise DocError('emitted machine has %d states, the document has %d state-like elements' % (em['n'], len(elems)))
    byid = {}
    for i, e in enumerate(elems):
        if e['id'] is not None:
            if e['id'] in byid:
                raise DocError('duplicate id %s in document' % e['id'])
            byid[e['id']] = i
    e2d = [None] * em['n']
    used = set()
    e2d[0] = 0
    used.add(0)
    for k in range(1, em['n']):
        pe = em['parents'][k]
        if pe >= k or e2d[pe] is None:
            raise DocError('emitted state %d has parent %d which is not an earlier state' % (k, pe))
        pd = e2d[pe]
        name = em['names'][k]
        if name is not None:
            d = byid.get(name)
            if d is None:
                raise DocError('emitted state %d is named %r, no such id in the document' % (k, name))
        else:
            kinds = TYPE_KIND.get(em['types'][k])
            cands = [c for c in elems[pd]['children'] if elems[c]['id'] is None and c not in used and
                     (kinds is None or elems[c]['kind'] in kinds)]
            if not cands:
                cands = [c for c in elems[pd]['children'] if elems[c]['id'] is None and c not in used]
            if not cands:
                raise DocError('emitted id-less state %d has no unmatched id-less sibling in the document' % k)
            d = cands[0]
        if d in used:
            raise DocError('document element matched twice (emitted state %d)' % k)
        used.add(d)
        e2d[k] = d
    return e2d


SEQ_ATTR = {'raise': 'event', 'send': 'event', 'log': 'expr', 'assign': 'location', 'cancel': 'sendid'}


def seq_facts(elems, e2d, n, trans):
    """Control-flow successor tables of the executable content of a document that follows the SEQ convention: every
    executable element carries a number q<nn>/Q<nn> (unique, 1..99) in its identifying attribute.  kind: 1 plain element,
    2 condition of <if>/<elseif>, 3 <foreach> (true: first element of the body or the loop itself, false: after the loop).  next[n]: number executed after plain element n (0 = end of the handler);
    true[n]/false[n]: where a condition goes.  None if the document does not follow the convention."""
    import re as _re
    kind, nxt, tru, fal, entry = {}, {}, {}, {}, {}
    ok = [True]

    def num(el, attr):
        m = _re.match(r'^[qQ](\d\d)$', el.get(attr) or '')
        if not m or int(m.group(1)) == 0 or int(m.group(1)) in kind:
            ok[0] = False
            return 0
        return int(m.group(1))

    def block(children, after):
        cur = after
        for el in reversed(children):
            t = _local(el.tag)
            if t == 'if':
                parts, cur_part = [], [num(el, 'cond'), []]
                else_part = None
                for ch in [c for c in el if isinstance(c.tag, str)]:
                    ct = _local(ch.tag)
                    if ct == 'elseif':
                        parts.append(cur_part)
                        cur_part = [num(ch, 'cond'), []]
                    elif ct == 'else':
                        parts.append(cur_part)
                        cur_part = None
                        else_part = []
                    elif else_part is not None:
                        else_part.append(ch)
                    else:
                        cur_part[1].append(ch)
                if cur_part is not None:
                    parts.append(cur_part)
                ft = block(else_part, cur) if else_part is not None else cur
                for cn, kids in reversed(parts):
                    kind[cn] = 2
                    tru[cn] = block(kids, cur)
                    fal[cn] = ft
                    ft = cn
                cur = ft
            elif t == 'foreach':
                k = num(el, 'array')
                kind[k] = 3
                fal[k] = cur                                   # after the loop
                tru[k] = block([c for c in el if isinstance(c.tag, str)], k)   # the body flows back to the loop head
                cur = k
            elif t == 'script':
                m = _re.match(r'^[qQ](\d\d)$', (el.text or '').strip())
                k = int(m.group(1)) if m and int(m.group(1)) not in kind and int(m.group(1)) > 0 else 0
                if not k:
                    ok[0] = False
                kind[k] = 1
                nxt[k] = cur
                cur = k
            elif t in SEQ_ATTR:
                k = num(el, SEQ_ATTR[t])
                kind[k] = 1
                nxt[k] = cur
                cur = k
            else:
                ok[0] = False
        return cur

    def handler(blocks):
        cur = 0
        for b in reversed(blocks):
            cur = block([c for c in b if isinstance(c.tag, str)], cur)
        if cur:
            entry[cur] = 1
        return cur

    onentry, onexit = [0] * n, [0] * n
    any_content = False
    for k in range(n):
        el = elems[e2d[k]]['el']
        ns = el.tag[:-len(_local(el.tag))]
        for tag, arr in (('onentry', onentry), ('onexit', onexit)):
            blocks = [c for c in el if isinstance(c.tag, str) and c.tag == ns + tag]
            if blocks:
                any_content = True
                arr[k] = handler(blocks)
    tr = []
    for _, t, _ in trans:
        kids = [c for c in t['el'] if isinstance(c.tag, str)]
        if kids:
            any_content = True
        tr.append(handler([t['el']]) if kids else 0)
    if not ok[0] or not any_content or not kind:
        return None
    mx = max(kind)
    arr = lambda d: [d.get(i, 0) for i in range(mx + 1)]
    return {'max': mx, 'kind': arr(kind), 'next': arr(nxt), 'true': arr(tru), 'false': arr(fal), 'entry': arr(entry),
            'onentry': onentry, 'onexit': onexit, 'trans': tr}


def c_str(s):
    if s is None:
        return 'NULL'
    return '"' + s.replace('\\', '\\\\').replace('"', '\\"').replace('\n', '\\n').replace('\t', '\\t').replace('\r', '\\r') + '"'


def facts_c(doc_path, ctext, index=0, root=None):
    """-> (C text with the d_* constants, info dict) for the index-th machine (root = its <scxml> element)"""
    elems = read_doc(doc_path, root)
    em = parse_emitted(ctext, index)
    e2d = match(elems, em)
    d2e = {d: k for k, d in enumerate(e2d)}
    byid = {e['id']: i for i, e in enumerate(elems) if e['id'] is not None}
    n = em['n']
    # transitions: emitted transitions grouped by source keep document order inside a source
    per_src_seen = {}
    trans = []
    unresolved = 0
    for t, s in enumerate(em['tsrc']):
        if s >= n:
            raise DocError('emitted transition %d has source %d >= nr_states' % (t, s))
        dsrc = e2d[s]
        k = per_src_seen.get(s, 0)
        per_src_seen[s] = k + 1
        if k >= len(elems[dsrc]['transitions']):
            raise DocError('emitted machine has more transitions for state %d than the document' % s)
        tr = elems[dsrc]['transitions'][k]
        tg = []
        for name in tr['targets']:
            if name in byid:
                tg.append(d2e[byid[name]])
            else:
                unresolved += 1
        trans.append((s, tr, tg))
    ndoc_t = sum(len(e['transitions']) for e in elems)
    if ndoc_t != len(em['tsrc']):
        raise DocError('document has %d transitions, emitted machine has %d' % (ndoc_t, len(em['tsrc'])))
    T = len(trans)
    maxi = max([1] + [len(elems[e2d[k]]['initial']) for k in range(n)])
    maxtg = max([1] + [len(tg) for _, _, tg in trans])
    out = []
    out.append('/* GENERATED by engines/genc/docfacts.py from %s (independent XML reading) */' % doc_path)
    out.append('#define D_N %d' % n)
    out.append('#define D_T %d' % T)
    out.append('#define D_MAXI %d' % maxi)
    out.append('#define D_MAXTG %d' % maxtg)
    out.append('#define D_TSEL %d' % sum(1 for s_, _, _ in trans if elems[e2d[s_]]['kind'] <= 3))  # transitions that can be selected (source is a proper state)
    out.append('static const int d_kind[D_N] = { %s };' % ', '.join(str(elems[e2d[k]]['kind']) for k in range(n)))
    out.append('static const int d_parent[D_N] = { %s };' % ', '.join(str(d2e[elems[e2d[k]]['parent']] if elems[e2d[k]]['parent'] is not None else 0) for k in range(n)))
    out.append('static const char *const d_id[D_N] = { %s };' % ', '.join(c_str(elems[e2d[k]]['id']) for k in range(n)))
    out.append('static const int d_docpos[D_N] = { %s };' % ', '.join(str(elems[e2d[k]]['docpos']) for k in range(n)))
    out.append('static const int d_has_initattr[D_N] = { %s };' % ', '.join('1' if elems[e2d[k]]['has_initial_attr'] else '0' for k in range(n)))
    rows = []
    ninit = []
    for k in range(n):
        ids = elems[e2d[k]]['initial']
        idx = [d2e[byid[i]] if i in byid else -1 for i in ids]
        ninit.append(len(idx))
        rows.append('{ %s }' % ', '.join(str(x) for x in (idx + [-1] * (maxi - len(idx)))))
    out.append('static const int d_ninit[D_N] = { %s };' % ', '.join(str(x) for x in ninit))
    out.append('static const int d_init[D_N][D_MAXI] = { %s };' % ', '.join(rows))
    def arr(name, vals, typ='int'):
        out.append('static const %s %s[D_T + 1] = { %s };' % (typ, name, ', '.join(vals + ['0'])))
    arr('d_tsrc', [str(s) for s, _, _ in trans])
    arr('d_tinternal', ['1' if tr['internal'] else '0' for _, tr, _ in trans])
    arr('d_thasevent', ['1' if tr['event'] is not None else '0' for _, tr, _ in trans])
    arr('d_thastarget', ['1' if tr['has_target'] else '0' for _, tr, _ in trans])
    arr('d_thascond', ['1' if tr['cond'] is not None else '0' for _, tr, _ in trans])
    arr('d_thascontent', ['1' if tr['has_content'] else '0' for _, tr, _ in trans])
    arr('d_tntgt', [str(len(tg)) for _, _, tg in trans])
    out.append('static const int d_ttgt[D_T + 1][D_MAXTG] = { %s };' % ', '.join(
        ['{ %s }' % ', '.join(str(x) for x in (tg + [-1] * (maxtg - len(tg)))) for _, _, tg in trans] + ['{ -1 }']))
    # ORDER_LOG convention: every proper state logs Enn / Xnn with a number of its own, every transition of a proper state Tnn
    proper = [k for k in range(n) if elems[e2d[k]]['kind'] <= K_FINAL and k != 0]
    lognums = [elems[e2d[k]]['lognum'] for k in proper]
    tl = [tr['lognum'] for s_, tr, _ in trans if elems[e2d[s_]]['kind'] <= K_FINAL]
    order_log = bool(proper) and all(x >= 0 for x in lognums) and len(set(lognums)) == len(lognums) and all(x >= 0 for x in tl) and len(set(tl)) == len(tl)
    out.append('#define D_ORDER_LOG %d' % (1 if order_log else 0))
    out.append('static const int d_lognum[D_N] = { %s };' % ', '.join(str(elems[e2d[k]]['lognum'] if (order_log and k in proper) else -1) for k in range(n)))
    arr('d_tlognum', [str(tr['lognum'] if order_log else -1) for _, tr, _ in trans])
    # SEQ convention (corpus/c17_exec_content_seq.scxml): control flow of the executable content, read from the XML
    seq = seq_facts(elems, e2d, n, trans)
    out.append('#define D_SEQ %d' % (seq['max'] if seq else 0))
    if seq:
        for nm in ('kind', 'next', 'true', 'false', 'entry'):
            out.append('static const int d_seq_%s[D_SEQ + 1] = { %s };' % (nm, ', '.join(str(x) for x in seq[nm])))
        out.append('static const int d_seq_onentry[D_N] = { %s };' % ', '.join(str(x) for x in seq['onentry']))
        out.append('static const int d_seq_onexit[D_N] = { %s };' % ', '.join(str(x) for x in seq['onexit']))
        out.append('static const int d_seq_trans[D_T + 1] = { %s };' % ', '.join(str(x) for x in seq['trans'] + [0]))
    out.append('static const char *const d_tevent[D_T + 1] = { %s };' % ', '.join([c_str(tr['event']) for _, tr, _ in trans] + ['NULL']))
    info = {'states': n, 'transitions': T, 'machines_in_file': em['machines'], 'unresolved_target_ids': unresolved,
            'idless_elements': sum(1 for e in elems if e['id'] is None) - 1, 'prefix': em['prefix'],
            'all_nr_states': em['all_nr_states'], 'all_nr_trans': em['all_nr_trans'],
            'kinds': [elems[e2d[k]]['kind'] for k in range(n)],
            'has_history': any(e['kind'] in (K_HSHALLOW, K_HDEEP) for e in elems),
            'has_parallel': any(e['kind'] == K_PARALLEL for e in elems), 'order_log': order_log}
    return '\n'.join(out) + '\n', info
