"""Proof of the emitted bit_* helpers for all arguments (C04): loop contracts, no unwinding."""
import hashlib
import json
import os
import re
import sys

HERE = os.path.dirname(os.path.abspath(__file__))
sys.path.insert(0, os.path.join(HERE, '..', '..', 'lib'))
from concurrent.futures import ThreadPoolExecutor
import cbmcrun
import common

FNS = {
    # function: (pointer args, per-byte relation after the loop for bytes >= i of the ORIGINAL count, read-only?)
    'bit_or': ('dest', "(dest[g_k] == (__CPROVER_loop_entry(dest[g_k]) | mask[g_k]))"),
    'bit_and': ('dest', "(dest[g_k] == (__CPROVER_loop_entry(dest[g_k]) & mask[g_k]))"),
    'bit_and_not': ('dest', "(dest[g_k] == (__CPROVER_loop_entry(dest[g_k]) & (mask[g_k] ^ 0xFF)))"),
    'bit_copy': ('dest', "(dest[g_k] == source[g_k])"),
    'bit_clear_all': ('a', "(a[g_k] == 0)"),
    'bit_has_and': (None, "((a[g_k] & b[g_k]) == 0)"),
    'bit_has_any': (None, "(a[g_k] == 0)"),
}
ARGS = {'bit_or': ['dest', 'mask', 'i'], 'bit_and': ['dest', 'mask', 'i'], 'bit_and_not': ['dest', 'mask', 'i'], 'bit_copy': ['dest', 'source', 'i'],
        'bit_clear_all': ['a', 'i'], 'bit_has_and': ['a', 'b', 'i'], 'bit_has_any': ['a', 'i']}


def helper_block(ctext):
    m = re.search(r'#ifndef USCXML_NO_BIT_OPERATIONS\n(.*?)#define USCXML_NO_BIT_OPERATIONS\n#endif', ctext, re.S)
    return m.group(1) if m else None


def loops_file(path, hb):
    fns = []
    for fn, (w, rel) in FNS.items():
        inv = ['i <= __CPROVER_loop_entry(i)', '__CPROVER_loop_entry(i) <= %d' % hb, 'g_k < %d' % hb,
               '((g_k >= i && g_k < __CPROVER_loop_entry(i)) ==> %s)' % rel]
        assigns = ['i']
        if w:
            inv.append('(g_k < i ==> %s[g_k] == __CPROVER_loop_entry(%s[g_k]))' % (w, w))
            inv.append('(g_k >= __CPROVER_loop_entry(i) ==> %s[g_k] == __CPROVER_loop_entry(%s[g_k]))' % (w, w))
            assigns.append('__CPROVER_object_upto(%s, %d)' % (w, hb))
        fns.append({fn: [{'loop_id': '0', 'assigns': ', '.join(assigns), 'invariants': ' && '.join(inv), 'decreases': 'i',
                          'symbol_map': ';'.join('%s,%s::%s' % (a, fn, a) for a in ARGS[fn])}]})
    json.dump({'functions': fns}, open(path, 'w'), indent=1)


def run(emitted_files):
    """emitted_files: list of (doc name, path of emitted C).  Proves the helper block of the first file for all
    arguments and checks that every other file carries the same helper text."""
    part = common.Part('genc-helpers')
    wd = os.path.join(common.WORK, 'genc')
    blocks = {}
    for name, path in emitted_files:
        try:
            b = helper_block(open(path, errors='replace').read())
        except OSError:
            b = None
        if b is None:
            part.errors.append('%s: bit_* helper block not found in the emitted file' % name)
            return part
        blocks.setdefault(hashlib.sha256(b.encode()).hexdigest(), []).append((name, b))
    if not blocks:
        part.errors.append('no emitted file to take the helpers from')
        return part
    part.extra['helper_text_variants'] = {h[:12]: len(v) for h, v in blocks.items()}
    jobs = []
    for h, lst in blocks.items():
        hc = os.path.join(wd, 'helpers_%s.c' % h[:12])
        open(hc, 'w').write(lst[0][1])
        for hb in (1, 2, 4, 8):
            lf = os.path.join(wd, 'helpers_loops_%d.json' % hb)
            loops_file(lf, hb)
            for fn in FNS:
                only = os.path.join(wd, 'helpers_loops_%d_%s.json' % (hb, fn))
                d = json.load(open(lf))
                d['functions'] = [f for f in d['functions'] if fn in f]
                json.dump(d, open(only, 'w'))
                jobs.append(cbmcrun.Job('helper_%s_%s_B%d' % (h[:6], fn, hb), [os.path.join(HERE, 'harness_helpers.c')], 'h_' + fn, wd, enforce=fn,
                                        includes=[HERE], defines={'HELPERS_C': '"%s"' % hc, 'HB': str(hb)}, cbmc_flags=['--drop-unused-functions'],
                                        loop_contracts_file=only, apply_loop_contracts=True,
                                        loop_anchors={(fn, '0'): r'while\s*\(i--\)'}, timeout=600, mem_gb=8, meta={'fn': fn, 'HB': hb}))
    with ThreadPoolExecutor(common.NCPU) as ex:
        results = list(ex.map(cbmcrun.verify, jobs))
    for r in results:
        part.add_job(r)
        if r['status'] == 'ok':
            for f in r['failed']:
                payload = {'property': 'C04', 'engine': 'genc-helpers', 'harness': r['name'], 'obligation': f['property'], 'description': f['description'],
                           'trace': (f.get('trace') or [])[-40:]}
                path = common.write_replay('C04', r['name'] + '_' + f['property'], payload)
                part.violations.append({'obligation': '%s %s' % (r['name'], f['property']), 'replay': path, 'reproduced': False, 'what': f['description']})
    part.functions.append({'function': 'bit_has_and, bit_clear_all, bit_has_any, bit_or, bit_copy, bit_and_not, bit_and', 'file': 'ChartToC.cpp writeHelpers -> emitted text',
                           'route': 'R2 emit (helper block cut out byte for byte); contracts + loop contracts for all arguments, array objects of 1, 2, 4, 8 bytes'})
    part.bounds.append('helpers: array object sizes 1, 2, 4, 8 bytes (any contents, any count i <= size); loops closed by loop contracts')
    return part
