#!/usr/bin/env python3
"""Compare a ctest junit file with BASELINE.json stable_pass: prints tests of the stable set that did not pass."""
import json, sys
import xml.etree.ElementTree as ET
base = json.load(open('/root/.vp/BASELINE.json'))
stable = set(x.split('::')[0] for x in base['stable_pass'])
res = {}
for tc in ET.parse(sys.argv[1]).getroot().iter('testcase'):
    ok = tc.find('failure') is None and tc.find('error') is None and tc.get('status', 'run') in ('run', 'passed')
    sk = tc.find('skipped') is not None
    res[tc.get('name')] = ok and not sk
missing = sorted(s for s in stable if not res.get(s, False))
print('stable=%d passed_of_stable=%d not_passed=%d' % (len(stable), len(stable) - len(missing), len(missing)))
for m in missing[:40]:
    print('  NOT PASSED:', m, '(absent)' if m not in res else '')
sys.exit(1 if missing else 0)
