/* Spec for the operator arms, written from the Promela manual's operator table ("the semantics of
 * Promela expressions is that of C int arithmetic"), keyed by the grammar token - NOT from the code.
 * Machine arithmetic: two's-complement wrap-around for + - * and unary minus is taken as defined
 * (that is what Spin's own C evaluator computes on the supported platforms); shifts are specified
 * for counts 0..31 only.  Faulting operations: / and % by zero, and INT_MIN / -1, INT_MIN % -1. */
#ifndef PML_SPEC_H
#define PML_SPEC_H
#include <limits.h>
static int spec_fault(int tok, int nops, int a, int b) {
  if (nops == 2 && (tok == PML_DIVIDE || tok == PML_MODULO)) return b == 0 || (a == INT_MIN && b == -1);
  return 0;
}
static int spec_defined(int tok, int nops, int a, int b) {
  if (tok == PML_LSHIFT || tok == PML_RSHIFT) return b >= 0 && b < 32;
  return 1;
}
static int spec_value(int tok, int nops, int a, int b) {
  unsigned ua = (unsigned)a, ub = (unsigned)b;
  if (tok == PML_MINUS && nops == 1) return (int)(0u - ua);
  switch (tok) {
  case PML_PLUS: return (int)(ua + ub);
  case PML_MINUS: return (int)(ua - ub);
  case PML_TIMES: return (int)(ua * ub);
  case PML_DIVIDE: return a / b;
  case PML_MODULO: return a % b;
  case PML_LSHIFT: return (int)(ua << ub);
  case PML_RSHIFT: return a >= 0 ? (int)(ua >> ub) : (int)~((~ua) >> ub);
  case PML_LT: return a < b ? 1 : 0;
  case PML_LE: return a <= b ? 1 : 0;
  case PML_GT: return a > b ? 1 : 0;
  case PML_GE: return a >= b ? 1 : 0;
  case PML_EQ: return a == b ? 1 : 0;
  case PML_NE: return a != b ? 1 : 0;
  case PML_AND: return (a != 0 && b != 0) ? 1 : 0;
  case PML_OR: return (a != 0 || b != 0) ? 1 : 0;
  case PML_NEG: return a == 0 ? 1 : 0;
  }
  return 0;
}
#endif
