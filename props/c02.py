"""C02 - the active configuration is legal after every microstep (generated-C machine only; DESIGN.md section 3, C02)."""
from props import genc_common


def check(tier):
    expl = ('Generated-C machine only (both interpreter engines are C++ and not applicable). Per emitted document the invariant Inv = legal '
            'configuration (Recommendation 3.11, phrased over the parent/type facts of an independent XML reading, not over the emitted tables) '
            '+ consistent remembered history is shown INDUCTIVE for the emitted uscxml_step(): from the pristine context and from EVERY context '
            'satisfying Inv, for every pending event and every answer of is_matched/is_true/queues, one step yields a context satisfying Inv '
            '(or returns a callback error). That closes the histories and configurations quantifiers by induction; the programs quantifier is a '
            'corpus. Counterexamples are replayed natively on the emitted file (ASan) and searched for reachability from the pristine context. '
            'For documents with nested histories the history clause is not decided (listed).')
    return genc_common.account('C02', tier, lambda key, tag, f: key in ('B', 'R') and tag == 'C02', expl, 'translation_validation',
                               extra_note='genc/C02: the loop contract (part A) and the glue lemma (part G) that close the DEQUEUE_EVENT loop are accounted under C04; C02 counts a document\'s obligations as unbounded only if they passed')


def replay(path):
    return genc_common.replay(path)
