"""Extract uscxml::nameMatch (src/uscxml/util/String.cpp) and StateMachine::nameMatch
(test/src/test-gen-c.cpp) to C over vstr."""
import os
import re
import sys
sys.path.insert(0, os.path.dirname(os.path.abspath(__file__)))
import rules

SIG = r'\bbool\s+nameMatch\s*\(\s*const\s+std::string\s*&\s*(\w+)\s*,\s*const\s+std::string\s*&\s*(\w+)\s*\)\s*'

SOURCES = [
    ('nm_core', 'src/uscxml/util/String.cpp', 'uscxml::nameMatch'),
    ('nm_scaffold', 'test/src/test-gen-c.cpp', 'StateMachine::nameMatch (scaffolding shipped for generated C)'),
]


def extract(repo, cname, relpath):
    path = os.path.join(repo, relpath)
    first, last, sig, body = rules.find_function(path, SIG)
    m = re.search(SIG, sig)
    a, b = m.group(1), m.group(2)
    body = rules.select_preproc_branch(body)
    rw = rules.StringRewriter([a, b])
    out = []
    origin = []
    for k, line in enumerate(body.split('\n')):
        new = rw.rewrite_line(line)
        if new.strip():
            out.append(new)
            origin.append('%s:%d' % (relpath, first + k))
    ctext = 'bool %s(vstr %s, vstr %s) {\n%s\n}\n' % (cname, a, b, '\n'.join(out))
    rules.check_residue(ctext, rw.sv, relpath)
    return {'c': ctext, 'lines': (first, last), 'origin': origin, 'rules_fired': rw.fired, 'path': relpath}


SIG_FWD = r'\bbool\s+InterpreterImpl::isMatched\s*\(\s*const\s+Event\s*&\s*(\w+)\s*,\s*const\s+std::string\s*&\s*(\w+)\s*\)\s*'
FWD_PATH = 'src/uscxml/interpreter/InterpreterImpl.cpp'


def extract_forwarder(repo):
    """InterpreterImpl::isMatched(event, eventDesc): <event>.name -> the string parameter event_name, nameMatch( -> nm_core(
    (the extracted uscxml::nameMatch).  Anything else in the body must be plain string code the rewriter understands."""
    path = os.path.join(repo, FWD_PATH)
    first, last, sig, body = rules.find_function(path, SIG_FWD)
    m = re.search(SIG_FWD, sig)
    ev, desc = m.group(1), m.group(2)
    body = re.sub(r'\b%s\s*\.\s*name\b' % ev, 'event_name', body)
    body = re.sub(r'\b(?:uscxml::)?nameMatch\s*\(', 'nm_core(', body)
    if re.search(r'\b%s\b' % ev, rules.strip_literals(body)):
        raise rules.ExtractionError('isMatched uses the event beyond its name: not a forwarder any more')
    rw = rules.StringRewriter([desc, 'event_name'])
    out = [rw.rewrite_line(l) for l in body.split('\n')]
    ctext = 'bool nm_forward(vstr event_name, vstr %s) {\n%s\n}\n' % (desc, '\n'.join(l for l in out if l.strip()))
    rules.check_residue(ctext, rw.sv, FWD_PATH)
    if 'nm_core(' not in ctext:
        raise rules.ExtractionError('isMatched does not call nameMatch any more')
    return {'c': ctext, 'lines': (first, last), 'path': FWD_PATH, 'cname': 'nm_forward', 'what': 'InterpreterImpl::isMatched (forwarder to uscxml::nameMatch)',
            'origin': ['%s:%d' % (FWD_PATH, first)], 'rules_fired': rw.fired}


def write_all(repo, outdir):
    os.makedirs(outdir, exist_ok=True)
    infos = []
    parts = ['/* GENERATED on every run by engines/extract/nm_extract.py from the repository sources. */',
             '#include <stdbool.h>', '#include "vstr.h"']
    for cname, rel, what in SOURCES:
        info = extract(repo, cname, rel)
        info['cname'] = cname
        info['what'] = what
        parts.append('/* %s  %s:%d-%d */' % (what, rel, info['lines'][0], info['lines'][1]))
        parts.append(info['c'])
        infos.append(info)
    fw = extract_forwarder(repo)
    parts.append('/* %s  %s:%d-%d */' % (fw['what'], fw['path'], fw['lines'][0], fw['lines'][1]))
    parts.append(fw['c'])
    infos.append(fw)
    p = os.path.join(outdir, 'nm_extracted.c')
    open(p, 'w').write('\n'.join(parts))
    with open(os.path.join(outdir, 'nm_origin.txt'), 'w') as f:
        for info in infos:
            cl = info['c'].split('\n')[1:-2]
            for o, l in zip(info['origin'], cl):
                f.write('%-40s | %s\n' % (o, l))
    return p, infos


if __name__ == '__main__':
    p, infos = write_all(sys.argv[1] if len(sys.argv) > 1 else '/repo', sys.argv[2] if len(sys.argv) > 2 else '/tmp/nmx')
    print(open(p).read())
    for i in infos:
        print(i['rules_fired'])
