/* Spec function of ONE microstep on configurations, written from Recommendation Appendix D (selectTransitions /
 * removeConflictingTransitions, computeExitSet, computeEntrySet, addDescendantStatesToEnter,
 * addAncestorStatesToEnter) over the independently read document facts d_* - not from ChartToC.cpp.
 * Used as the postcondition "configuration after uscxml_step == sps_config(configuration before, history
 * before, answers of the callbacks)" (C04: same sequence of configurations as the chart prescribes).
 *
 * Formulation choices (all stated in DESIGN.md, C04):
 *  - selection: transitions are visited in priority order (post-fix order of their sources, document order
 *    inside a state - C05.order proves the emitted order is that one); a transition is taken iff its source is
 *    active, it is not pre-empted by one taken before, its event descriptor matches (or it is eventless in a
 *    spontaneous pass) and its condition holds.  For transitions ordered like this, this greedy pass yields the
 *    optimal enabled transition set of the Recommendation.  Pre-emption is sp_conflict() (spec_rec.h); where the
 *    spec leaves the relation open (nested sources with a parallel state between) the emitted bit is used.
 *  - history: records are read through the spec regions (shallow: child states of the parent, deep: proper
 *    descendants of the parent); in documents with nested histories (SKIP_HIST, see DESIGN.md C02) the clauses are
 *    asserted only for steps whose entry set involves no history element (sps_hist_used == 0).
 *  - the entry set is computed as in the Recommendation: targets, their ancestors strictly below the transition
 *    domain, then default completion of every entered state that has no entered child; pseudo-states are
 *    resolved and dropped.
 * The answers of is_matched / is_true are parameters (ans_m, ans_c indexed by transition; a condition text that
 * occurs on several transitions has ONE answer: the entry of the first transition carrying it). */
#ifndef SPEC_STEP_H
#define SPEC_STEP_H

#define SPS_NB USCXML_MAX_NR_STATES_BYTES

static int sps_streq(const char *a, const char *b) {
  if (a == 0 || b == 0) return a == b;
  for (int i = 0; i < 256; i++) {
    if (a[i] != b[i]) return 0;
    if (a[i] == 0) return 1;
  }
  return 1;
}
/* index of the first transition whose condition text equals expr, -1 if none */
static int sps_cond_index(const char *expr) {
  for (int t = 0; t < D_T; t++)
    if (USCXML_MACHINE.transitions[t].condition != 0 && sps_streq(expr, USCXML_MACHINE.transitions[t].condition)) return t;
  return -1;
}
static int sps_preempts(int earlier, int later) {
  int c = sp_conflict(earlier, later);
  if (c == 2) return sp_bit(USCXML_MACHINE.transitions[earlier].conflicts, later);
  return c;
}
/* optimal enabled transition set; sel[t] = 1 if transition t is taken */
static void sps_select(const unsigned char *C, int spont, const int *ans_m, const int *ans_c, int has_is_true, int *sel) {
  for (int t = 0; t < D_T; t++) {
    sel[t] = 0;
    int src = d_tsrc[t];
    if (!sp_proper(src)) continue;                       /* default transitions of <history>/<initial> are never selected */
    if (!sp_bit(C, src)) continue;
    if (spont ? d_thasevent[t] : !d_thasevent[t]) continue;
    int pre = 0;
    for (int u = 0; u < t; u++) if (sel[u] && sps_preempts(u, t)) pre = 1;
    if (pre) continue;
    if (!spont && !(ans_m[t] > 0)) continue;
    if (d_thascond[t]) {
      int ci = sps_cond_index(USCXML_MACHINE.transitions[t].condition);
      int v = has_is_true ? (ci >= 0 ? ans_c[ci] : 0) : USCXML_ERR_MISSING_CALLBACK;
      if (!(v > 0)) continue;
    }
    sel[t] = 1;
  }
}

/* addAncestorStatesToEnter: the ancestors of s strictly below 'stop' */
static void sps_add_anc(unsigned char *E, int s, int stop) {
  int x = s;
  for (int n = 0; n < D_N; n++) {
    if (x == 0) return;
    x = d_parent[x];
    if (x == stop) return;
    sp_set(E, x);
  }
}
static int sps_in_region(int h, int j) {
  int p = d_parent[h];
  return sp_proper(j) && (d_kind[h] == K_HSHALLOW ? sp_child(j, p) : sp_desc(j, p));
}

static int sps_hist_used; /* set by sps_config when a history pseudo-state was part of the entry set */
static unsigned char sps_pseudo[SPS_NB]; /* set by sps_config: <initial> elements / histories whose (default) transition is taken in this step */

/* configuration after the microstep that takes the transitions sel[] from configuration C with history H;
 * pristine: the initial step (enter the root and its default completion).
 * exited / entered: the states whose onexit / onentry handlers run in this step */
static void sps_config(const unsigned char *C, const unsigned char *H, const int *sel, int pristine, unsigned char *out, unsigned char *exited, unsigned char *entered) {
  unsigned char X[SPS_NB], E[SPS_NB], tmp[SPS_NB], Hn[SPS_NB];
  sp_zero(X, SPS_NB); sp_zero(E, SPS_NB);
  sps_hist_used = 0;
  sp_zero(sps_pseudo, SPS_NB);
  for (int k = 0; k < SPS_NB; k++) Hn[k] = H[k];
  if (pristine) {
    sp_set(E, 0);
  } else {
    for (int t = 0; t < D_T; t++) {
      if (!sel[t]) continue;
      sp_exit_set(t, tmp);
      for (int k = 0; k < SPS_NB; k++) X[k] |= tmp[k];
    }
    for (int k = 0; k < SPS_NB; k++) X[k] &= C[k];
    /* exitStates runs before enterStates: a history whose parent is exited in this very step is restored from the
       record taken in this step */
    for (int h = 1; h < D_N; h++) {
      if (!sp_is_history(h) || !sp_bit(X, d_parent[h])) continue;
      for (int j = 1; j < D_N; j++) {
        if (!sps_in_region(h, j)) continue;
        if (sp_bit(C, j)) sp_set(Hn, j); else Hn[j >> 3] = (unsigned char)(Hn[j >> 3] & ~(1u << (j & 7)));
      }
    }
    for (int t = 0; t < D_T; t++) {
      if (!sel[t]) continue;
      int dom = sp_domain(t);
      if (dom < 0) continue;
      for (int k = 0; k < d_tntgt[t]; k++) {
        int s = d_ttgt[t][k];
        if (s < 0) continue;
        sp_set(E, s);
        sps_add_anc(E, s, dom);
      }
    }
  }
  /* default completion, top-down; a restored / default history target may lie before the history element in
     document order, so sweep once more per pseudo-state */
  int rounds = 1;
  for (int i = 1; i < D_N; i++) if (!sp_proper(i)) rounds++;
  for (int r = 0; r < rounds; r++) {
    for (int i = 0; i < D_N; i++) {
      if (!sp_bit(E, i)) continue;
      if (d_kind[i] == K_PARALLEL) {
        for (int j = i + 1; j < D_N; j++) if (sp_child(j, i) && sp_proper(j)) sp_set(E, j);
      } else if (sp_is_history(i)) {
        sps_hist_used = 1;
        int rec = 0;
        for (int j = 1; j < D_N; j++) if (sps_in_region(i, j) && sp_bit(Hn, j)) rec = 1;
        if (rec) {
          for (int j = 1; j < D_N; j++) if (sps_in_region(i, j) && sp_bit(Hn, j)) sp_set(E, j);
        } else {
          sp_set(sps_pseudo, i);
          for (int t = 0; t < D_T; t++) {
            if (d_tsrc[t] != i) continue;
            for (int k = 0; k < d_tntgt[t]; k++) {
              int s = d_ttgt[t][k];
              if (s < 0) continue;
              sp_set(E, s);
              sps_add_anc(E, s, d_parent[i]);
            }
            break;
          }
        }
      } else if (d_kind[i] == K_INITIAL) {
        sp_set(sps_pseudo, i);
        for (int t = 0; t < D_T; t++) {
          if (d_tsrc[t] != i) continue;
          for (int k = 0; k < d_tntgt[t]; k++) {
            int s = d_ttgt[t][k];
            if (s < 0) continue;
            sp_set(E, s);
            sps_add_anc(E, s, d_parent[i]);
          }
          break;
        }
      } else if (sp_compound(i)) {
        int has = 0;
        for (int j = i + 1; j < D_N; j++) if (sp_child(j, i) && sp_bit(E, j)) has = 1;
        if (has) continue;
        sp_completion(i, tmp);
        for (int j = i + 1; j < D_N; j++) {
          if (!sp_bit(tmp, j)) continue;
          sp_set(E, j);
          sps_add_anc(E, j, i);
        }
      }
    }
  }
  for (int k = 0; k < SPS_NB; k++) { out[k] = (unsigned char)(C[k] & ~X[k]); exited[k] = X[k]; entered[k] = 0; }
  for (int i = 0; i < D_N; i++) if (sp_bit(E, i) && sp_proper(i)) { if (!sp_bit(out, i)) sp_set(entered, i); sp_set(out, i); }
}
#endif
