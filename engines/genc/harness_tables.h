/* C05: the tables embedded in the emitted C are the sets the Recommendation defines for this document.
 * All inputs are constants: every obligation is closed, CBMC evaluates it (with bounds checks on the
 * emitted arrays).  One named obligation class per column; the row is in the witness globals. */
#ifndef HARNESS_TABLES_H
#define HARNESS_TABLES_H

int wit_row, wit_col2; /* witness: failing row (state or transition index) and second index */

static int ht_streq(const char *a, const char *b) {
  if (a == 0 || b == 0) return a == b;
  for (int i = 0; i < 256; i++) {
    if (a[i] != b[i]) return 0;
    if (a[i] == 0) return 1;
  }
  return 1;
}
static int ht_biteq(const unsigned char *a, const unsigned char *b, int nbytes) {
  for (int k = 0; k < nbytes; k++) if (a[k] != b[k]) return 0;
  return 1;
}

void h_tables(void) {
  const uscxml_machine *m = &USCXML_MACHINE;
  unsigned char e[USCXML_MAX_NR_STATES_BYTES];
  __CPROVER_assert(0, "CANARY tables harness reached");

  /* sizing facts (part of tables_wf) */
  __CPROVER_assert(m->nr_states == D_N, "C05.sizing: nr_states equals the number of state-like elements of the document");
  __CPROVER_assert(m->nr_transitions == D_T, "C05.sizing: nr_transitions equals the number of transitions of the document");
  __CPROVER_assert(8 * USCXML_MAX_NR_STATES_BYTES >= D_N, "C04.sizing: USCXML_MAX_NR_STATES_BYTES holds every state bit");
  __CPROVER_assert(8 * USCXML_MAX_NR_TRANS_BYTES >= D_T, "C04.sizing: USCXML_MAX_NR_TRANS_BYTES holds every transition bit");
  __CPROVER_assert((USCXML_NR_STATES_TYPE)D_N == D_N && (USCXML_NR_TRANS_TYPE)D_T == D_T, "C04.sizing: USCXML_NR_*_TYPE can hold the counts");
  if (m->nr_states != D_N || m->nr_transitions != D_T) return;

  for (int i = 0; i < D_N; i++) {
    const uscxml_state *s = &m->states[i];
    wit_row = i;
    /* order */
    __CPROVER_assert(ht_streq(s->name, d_id[i]), "C05.order: emitted state i is the document element matched to it (name == id)");
    __CPROVER_assert(i == 0 || s->parent < i, "C05.order: parent index precedes the state (document order is a pre-order)");
    __CPROVER_assert(i == 0 || s->parent == i - 1 || sp_desc(i - 1, s->parent), "C05.order: index order is a pre-order of the state tree (subtrees contiguous)");
    for (int j = i + 1; j < D_N; j++) {
      wit_col2 = j;
      __CPROVER_assert(!(sp_proper(i) && sp_proper(j)) || d_docpos[i] < d_docpos[j], "C05.order: proper states keep their document order");
    }
    /* parent */
    __CPROVER_assert(s->parent == d_parent[i], "C05.parent: parent column");
    /* type */
    __CPROVER_assert(USCXML_STATE_MASK(s->type) == sp_type(i), "C05.type: state type code (atomic/compound/parallel/final/history/initial)");
    {
      int hist_child = 0;
      for (int j = 1; j < D_N; j++) if (sp_child(j, i) && sp_is_history(j)) hist_child = 1;
      __CPROVER_assert(!(sp_proper(i) && hist_child) || (s->type & USCXML_STATE_HAS_HISTORY), "C05.type: HAS_HISTORY flag set on a state with a history child");
      __CPROVER_assert(!(sp_proper(i) && !hist_child) || !(s->type & USCXML_STATE_HAS_HISTORY), "C05.type: HAS_HISTORY flag clear on a state without history child");
    }
    /* children / ancestors */
    for (int j = 0; j < 8 * USCXML_MAX_NR_STATES_BYTES; j++) {
      wit_col2 = j;
      __CPROVER_assert(sp_bit(s->children, j) == (j < D_N && sp_child(j, i)), "C05.children: children set");
      __CPROVER_assert(sp_bit(s->ancestors, j) == (j < D_N && sp_desc(i, j)), "C05.ancestors: ancestor set");
    }
    /* completion */
    if (!sp_is_history(i)) {
      sp_completion(i, e);
      __CPROVER_assert(ht_biteq(s->completion, e, USCXML_MAX_NR_STATES_BYTES), "C05.completion: default completion (parallel: all child states; initial attribute; <initial> element; else first child state)");
      for (int k = 0; k < d_ninit[i]; k++)
        __CPROVER_assert(d_init[i][k] >= 0, "C05.completion: every id in the initial attribute names a state of the document");
    } else {
      int p = d_parent[i];
      for (int j = 0; j < 8 * USCXML_MAX_NR_STATES_BYTES; j++) {
        wit_col2 = j;
        int in = sp_bit(s->completion, j);
        if (j >= D_N || !sp_desc(j, p)) {
          __CPROVER_assert(!in, "C05.history_completion: only descendants of the history's parent");
        } else if (!sp_proper(j)) {
          /* pseudo-states below the parent: never part of a configuration, the bit is immaterial */
        } else if (d_kind[i] == K_HSHALLOW) {
          __CPROVER_assert(in == sp_child(j, p), "C05.history_completion: shallow history covers exactly the child states of its parent");
        } else {
          if (!sp_below_nested_history(j, p))
            __CPROVER_assert(in, "C05.history_completion: deep history covers every proper descendant not covered by a nested history");
          /* partition: a descendant is covered by this history or by exactly the nested histories, never lost */
          if (!in) {
            int covered = 0;
            for (int h = 1; h < D_N; h++)
              if (h != i && sp_is_history(h) && sp_desc(d_parent[h], p) && sp_bit(m->states[h].completion, j)) covered = 1;
            __CPROVER_assert(covered, "C05.history_completion: a descendant left out of a deep history is covered by a nested history");
          }
        }
      }
    }
  }

  for (int t = 0; t < D_T; t++) {
    const uscxml_transition *tr = &m->transitions[t];
    wit_row = t;
    __CPROVER_assert(tr->source == d_tsrc[t], "C05.order: transition source");
    __CPROVER_assert(t == 0 || d_tsrc[t - 1] == d_tsrc[t] || sp_post_before(d_tsrc[t - 1], d_tsrc[t]), "C05.order: transitions are sorted by post-fix order of their source (descendants first), document order inside a state");
    /* target */
    sp_zero(e, USCXML_MAX_NR_STATES_BYTES);
    for (int k = 0; k < d_tntgt[t]; k++) {
      __CPROVER_assert(d_ttgt[t][k] >= 0, "C05.target: every target id names a state of the document");
      if (d_ttgt[t][k] >= 0) sp_set(e, d_ttgt[t][k]);
    }
    __CPROVER_assert(ht_biteq(tr->target, e, USCXML_MAX_NR_STATES_BYTES), "C05.target: transition target set");
    /* type */
    {
      int ty = (d_thastarget[t] ? 0 : USCXML_TRANS_TARGETLESS) | (d_tinternal[t] ? USCXML_TRANS_INTERNAL : 0) |
               (d_thasevent[t] ? 0 : USCXML_TRANS_SPONTANEOUS) | (sp_is_history(d_tsrc[t]) ? USCXML_TRANS_HISTORY : 0) |
               (d_kind[d_tsrc[t]] == K_INITIAL ? USCXML_TRANS_INITIAL : 0);
      __CPROVER_assert(tr->type == ty, "C05.trans_type: TARGETLESS/INTERNAL/SPONTANEOUS/HISTORY/INITIAL flags");
    }
    __CPROVER_assert(ht_streq(tr->event, d_tevent[t]), "C05.trans_type: event descriptor string");
    __CPROVER_assert((tr->is_enabled != 0) == d_thascond[t], "C04.wf: is_enabled present exactly for transitions with a cond");
    __CPROVER_assert(tr->condition == 0 || tr->is_enabled != 0, "C04.wf: condition != NULL implies is_enabled != NULL (the step function calls it unguarded)");
    /* exit set and conflicts are defined for transitions that can be selected; the default transitions of
       <history> and <initial> are never selected and the step function does not read these columns for them */
    if (sp_is_history(d_tsrc[t]) || d_kind[d_tsrc[t]] == K_INITIAL) continue;
    sp_exit_set(t, e);
    __CPROVER_assert(ht_biteq(tr->exit_set, e, USCXML_MAX_NR_STATES_BYTES), "C05.exit_set: proper descendants of the transition domain (empty for targetless)");
    /* conflicts */
    for (int u = 0; u < 8 * USCXML_MAX_NR_TRANS_BYTES; u++) {
      wit_col2 = u;
      int c = sp_bit(tr->conflicts, u);
      if (u >= D_T) { __CPROVER_assert(!c, "C05.conflicts: no bit beyond nr_transitions"); continue; }
      if (sp_is_history(d_tsrc[u]) || d_kind[d_tsrc[u]] == K_INITIAL) continue;
      int sp = sp_conflict(t, u);
      __CPROVER_assert(sp != 1 || c, "C05.conflicts: must conflict (exit sets intersect, same source, or nested sources with no parallel between)");
      __CPROVER_assert(sp != 0 || !c, "C05.conflicts: must not conflict (disjoint exit sets, unrelated sources)");
      __CPROVER_assert(c == sp_bit(m->transitions[u].conflicts, t), "C05.conflicts: relation is symmetric");
    }
  }
  /* donedata array ends in an all-NULL element (the step function scans for it) */
  {
    const uscxml_elem_donedata *dd = m->donedata;
    int k = 0, ended = 0;
    for (; k <= D_N; k++) {
      if (!USCXML_ELEM_DONEDATA_IS_SET((&dd[k]))) { ended = 1; break; }
    }
    __CPROVER_assert(ended, "C04.wf: donedata array is terminated by an unset element within nr_states+1 entries");
  }
}
#endif
