/* Native replay for the generated-C machine (C02 / C04): the emitted file (GENC_FILE, byte-for-byte output of
 * uscxml-transform -tc) is compiled with ASan+UBSan together with the document facts and the 3.11 legality
 * predicates; the callbacks answer from an enumerated bit pattern.
 *   replay_genc pre <flags> <config-hex> <history-hex> <bits> [skiphist]
 *        run ONE real uscxml_step() from the given pre-state for every callback-answer pattern of <bits> bits
 *   replay_genc reach <steps> <bits> [skiphist]
 *        run <steps> real steps from the pristine context for every answer pattern: is an illegal
 *        configuration REACHABLE from initialisation?
 * exit 1 + "REPRODUCED ..." if a step yields an illegal configuration (memory errors abort via ASan). */
#include <stdio.h>
#include <stdlib.h>
#include <string.h>
#include GENC_FILE
#include DOC_FACTS
#include "spec_rec.h"
#include "wf.h"
#include "spec_step.h"

static unsigned long long answers;
static int apos, nbits;
static int next_bit(void) { int b = apos < nbits ? (int)((answers >> apos) & 1) : 0; apos++; return b; }
static char ev;
#if D_SEQ > 0
static int seq_expect, seq_started[D_SEQ + 1]; static const char *seq_bad;
static int seq_num(const char *s) {
  if (s && (s[0] == 'q' || s[0] == 'Q') && s[1] >= '0' && s[1] <= '9' && s[2] >= '0' && s[2] <= '9' && s[3] == 0) return (s[1] - '0') * 10 + (s[2] - '0');
  return 0;
}
static int seq_visit(int n, int kind) {
  if (n < 1 || n > D_SEQ || d_seq_kind[n] != kind) { seq_bad = "a callback was invoked for an element of the wrong kind / an unknown element"; return 0; }
  if (seq_expect == 0) { if (!d_seq_entry[n]) seq_bad = "a handler block did not start with its first executable element"; seq_started[n]++; }
  else if (n != seq_expect) seq_bad = "executable content did not run in document order / an <if> chain did not test its own conditions in order";
  return 1;
}
#define SEQ_PLAIN(str) do { int n_ = seq_num(str); if (n_) { if (seq_visit(n_, 1)) seq_expect = d_seq_next[n_]; return 0; } } while (0)
#else
#define SEQ_PLAIN(str) do { } while (0)
#endif
/* answers of the current selection pass, per transition (for the spec function of spec_step.h); a transition that was
   not asked counts as "would have matched / held" so that a pass that wrongly skips it shows */
static int ans_m[D_T + 1], ans_c[D_T + 1], asked_c[D_T + 1];
static void new_pass(void) { for (int t = 0; t <= D_T; t++) { ans_m[t] = 1; ans_c[t] = 1; asked_c[t] = 0; } }
static int int_last_null; static const char *order_bad;
static void *cb_deq_int(const uscxml_ctx *c) { new_pass(); int b = next_bit(); int_last_null = !b; return b ? &ev : 0; }
static void *cb_deq_ext(const uscxml_ctx *c) { new_pass(); return next_bit() ? &ev : 0; }
static int cb_is_matched(const uscxml_ctx *c, const uscxml_transition *t, const void *e) {
  int b = next_bit();
  long idx = t - &USCXML_MACHINE.transitions[0];
  if (idx >= 0 && idx < D_T) ans_m[idx] = b;
  return b;
}
static int cb_is_true(const uscxml_ctx *c, const char *e) {
#if D_SEQ > 0
  { int n_ = seq_num(e); if (n_) { int a_ = next_bit(); if (seq_visit(n_, 2)) seq_expect = a_ ? d_seq_true[n_] : d_seq_false[n_]; return a_; } }
#endif
  int ci = e ? sps_cond_index(e) : -1;
  if (ci < 0) return next_bit();
  if (!asked_c[ci]) { ans_c[ci] = next_bit(); asked_c[ci] = 1; }
  return ans_c[ci];
}
static unsigned char done_set[USCXML_MAX_NR_STATES_BYTES + 8];
static int done_bad, done_twice;
static int cb_done(const uscxml_ctx *c, const uscxml_state *s, const uscxml_elem_donedata *d) {
  long idx = s - &USCXML_MACHINE.states[0];
  if (idx < 0 || idx >= D_N) { done_bad = 1; return 0; }
  if (done_set[idx >> 3] & (1u << (idx & 7))) done_twice = 1;
  done_set[idx >> 3] |= (unsigned char)(1u << (idx & 7));
  return 0;
}
static unsigned char xl[USCXML_MAX_NR_STATES_BYTES + 8], el[USCXML_MAX_NR_STATES_BYTES + 8], tl[USCXML_MAX_NR_TRANS_BYTES + 8];
static const char *log_bad;
static int log_phase, log_last;
/* ORDER_LOG convention: X<nn> / E<nn> / T<kk> (see engines/genc/harness_doc.c) */
static int cb_log(const uscxml_ctx *c, const char *l, const char *e) {
  SEQ_PLAIN(e);
#if D_ORDER_LOG
  if (e && (e[0] == 'X' || e[0] == 'E' || e[0] == 'T') && e[1] && e[2]) {
    int n = (e[1] - '0') * 10 + (e[2] - '0');
    if (e[0] == 'T') {
      for (int u = 0; u < D_T; u++) if (d_tlognum[u] == n) { if (sp_bit(tl, u)) log_bad = "transition content ran twice"; sp_set(tl, u); }
      if (log_phase > 2) log_bad = "transition content ran after a state was entered";
      log_phase = 2;
      return 0;
    }
    for (int j = 1; j < D_N; j++) if (d_lognum[j] == n) { unsigned char *s = e[0] == 'X' ? xl : el; if (sp_bit(s, j)) log_bad = "a state handler ran twice"; sp_set(s, j); }
    if (e[0] == 'X') { if (log_phase > 1) log_bad = "a state was exited after transition content / an entry"; else if (log_phase == 1 && n >= log_last) log_bad = "states not exited in reverse document order"; log_phase = 1; }
    else { if (log_phase == 3 && n <= log_last) log_bad = "states not entered in document order"; log_phase = 3; }
    log_last = n;
  }
#endif
  return 0;
}
static int cb_raise(const uscxml_ctx *c, const char *e) { SEQ_PLAIN(e); return 0; }
static int cb_send(const uscxml_ctx *c, const uscxml_elem_send *s) { SEQ_PLAIN(s->event); return 0; }
static int cb_fe(const uscxml_ctx *c, const uscxml_elem_foreach *f) { return USCXML_ERR_FOREACH_DONE; }
#if D_SEQ > 0
static int seq_loop[D_SEQ + 1], fe_budget;
static int cb_fe_init(const uscxml_ctx *c, const uscxml_elem_foreach *f) {
  int n = seq_num(f->array);
  if (!n) return USCXML_ERR_FOREACH_DONE;
  if (seq_visit(n, 3)) { if (seq_loop[n]) seq_bad = "a <foreach> was initialised twice"; seq_loop[n] = 1; seq_expect = n; }
  return USCXML_ERR_OK;
}
static int cb_fe_next(const uscxml_ctx *c, const uscxml_elem_foreach *f) {
  int n = seq_num(f->array);
  if (n < 1 || n > D_SEQ) return USCXML_ERR_FOREACH_DONE;
  if (seq_expect != n || seq_loop[n] != 1) seq_bad = "foreach_next was not asked at the head of the loop";
  if (fe_budget > 0 && next_bit()) { fe_budget--; seq_expect = d_seq_true[n]; return USCXML_ERR_OK; }
  seq_loop[n] = 2;
  return USCXML_ERR_FOREACH_DONE;
}
static int cb_fe_done(const uscxml_ctx *c, const uscxml_elem_foreach *f) {
  int n = seq_num(f->array);
  if (n < 1 || n > D_SEQ) return USCXML_ERR_OK;
  if (seq_expect != n || seq_loop[n] != 2) seq_bad = "foreach_done was not called exactly when foreach_next reported the end of the array";
  seq_loop[n] = 0; seq_expect = d_seq_false[n];
  return USCXML_ERR_OK;
}
#endif
static int cb_assign(const uscxml_ctx *c, const uscxml_elem_assign *a) { SEQ_PLAIN(a->location); return 0; }
static int cb_init(const uscxml_ctx *c, const uscxml_elem_data *d) { return 0; }
static int cb_cancel(const uscxml_ctx *c, const char *a, const char *b) { SEQ_PLAIN(a); return 0; }
static int cb_script(const uscxml_ctx *c, const char *a, const char *b) { SEQ_PLAIN(b); return 0; }
static int cb_invoke(const uscxml_ctx *c, const uscxml_state *s, const uscxml_elem_invoke *i, unsigned char u) {
  if (!u && !int_last_null) order_bad = "an invocation was started although the internal queue had not answered empty";
  return 0;
}

static void init_ctx(uscxml_ctx *c) {
  memset(c, 0, sizeof(*c));
  c->machine = &USCXML_MACHINE;
  c->dequeue_internal = cb_deq_int; c->dequeue_external = cb_deq_ext; c->is_matched = cb_is_matched; c->is_true = cb_is_true;
  c->raise_done_event = cb_done; c->exec_content_log = cb_log; c->exec_content_raise = cb_raise; c->exec_content_send = cb_send;
#if D_SEQ > 0
  c->exec_content_foreach_init = cb_fe_init; c->exec_content_foreach_next = cb_fe_next; c->exec_content_foreach_done = cb_fe_done;
#else
  c->exec_content_foreach_init = cb_fe; c->exec_content_foreach_next = cb_fe; c->exec_content_foreach_done = cb_fe;
#endif
  c->exec_content_assign = cb_assign; c->exec_content_init = cb_init; c->exec_content_cancel = cb_cancel;
  c->exec_content_script = cb_script; c->invoke = cb_invoke;
}
static void unhex(const char *h, unsigned char *out, int n) {
  for (int i = 0; i < n; i++) { unsigned v = 0; if (strlen(h) >= (size_t)(2 * i + 2)) sscanf(h + 2 * i, "%2x", &v); out[i] = (unsigned char)v; }
}
static void show(const char *what, const unsigned char *s) {
  printf("%s={", what);
  for (int i = 0; i < D_N; i++) if (sp_bit(s, i)) printf(" %s", d_id[i] ? d_id[i] : (i == 0 ? "<scxml>" : "?"));
  printf(" }");
}
static int skiphist;
static int ok_state(const uscxml_ctx *c) { return legal_config(c->config) && (skiphist || hist_ok(c->history)); }
/* the postconditions of engines/genc/harness_doc.c that go beyond legality, evaluated natively; returns NULL or a reason */
static const char *post_clauses(const uscxml_ctx *pre, const uscxml_ctx *c, int r, int pre_ok) {
  if (done_bad) return "raise_done_event received a pointer outside the state table";
  if (order_bad) return order_bad;
  if (done_twice) return "a done event was raised twice for the same state in one step";
  if (!(pre->flags & USCXML_CTX_FINISHED) && (c->flags & USCXML_CTX_FINISHED))
    for (int i = 0; i < D_N; i++) if (sp_bit(c->invocations, i)) return "a finished machine has an invocation left running";
  if ((c->flags & USCXML_CTX_TOP_LEVEL_FINAL) && !(pre->flags & USCXML_CTX_TOP_LEVEL_FINAL) && r == USCXML_ERR_OK) {
    int top = 0;
    for (int i = 1; i < D_N; i++) if (d_kind[i] == K_FINAL && d_parent[i] == 0 && sp_bit(c->config, i)) top = 1;
    if (!top) return "TOP_LEVEL_FINAL set without an active final child of <scxml>";
  }
  if (!pre_ok || !(r == USCXML_ERR_OK || r == USCXML_ERR_IDLE || r == USCXML_ERR_DONE)) return 0;
  if (!skiphist)
    for (int hh = 1; hh < D_N; hh++) {
      if (!sp_is_history(hh)) continue;
      int p = d_parent[hh], same = 1, recorded = 1;
      for (int j = 1; j < D_N; j++) {
        int in_region = sp_proper(j) && (d_kind[hh] == K_HSHALLOW ? sp_child(j, p) : sp_desc(j, p));
        if (!in_region) continue;
        if (sp_bit(c->history, j) != sp_bit(pre->history, j)) same = 0;
        if (sp_bit(c->history, j) != sp_bit(pre->config, j)) recorded = 0;
      }
      if (!(same || (sp_bit(pre->config, p) && recorded))) return "the record of a history changed although its parent was not active, or to something else than what was active below the parent";
    }
  if (r == USCXML_ERR_OK && !(pre->flags & (USCXML_CTX_FINISHED | USCXML_CTX_TOP_LEVEL_FINAL))) {
    /* the step function against the spec function of one microstep (spec_step.h) */
    int sel[D_T + 1]; unsigned char exp[USCXML_MAX_NR_STATES_BYTES + 8], xs[USCXML_MAX_NR_STATES_BYTES + 8], es[USCXML_MAX_NR_STATES_BYTES + 8];
    int pristine = pre->flags == USCXML_CTX_PRISTINE, any = pristine;
    for (int t = 0; t <= D_T; t++) sel[t] = 0;
    if (!pristine) {
      sps_select(pre->config, c->event == 0, ans_m, ans_c, 1, sel);
      for (int t = 0; t < D_T; t++) if (sel[t]) any = 1;
    }
    if (!any) return "the step returned OK although the optimal enabled transition set is empty";
    sps_config(pre->config, pre->history, sel, pristine, exp, xs, es);
    if (skiphist && sps_hist_used) goto after_spec; /* nested histories: steps that restore a history are left out */
    for (int k = 0; k < USCXML_MAX_NR_STATES_BYTES; k++)
      if (exp[k] != c->config[k]) {
        static char msg[600]; int n = snprintf(msg, sizeof msg, "configuration differs from the microstep algorithm of the Recommendation, which yields {");
        for (int i = 0; i < D_N && n < 560; i++) if (sp_bit(exp, i)) n += snprintf(msg + n, sizeof msg - n, " %s", d_id[i] ? d_id[i] : "<scxml>");
        snprintf(msg + n, sizeof msg - n, " }");
        return msg;
      }
#if D_ORDER_LOG
    if (log_bad) return log_bad;
    for (int i = 1; i < D_N; i++) {
      if (d_lognum[i] < 0) continue;
      if (sp_bit(xl, i) != sp_bit(xs, i)) return "onexit content did not run exactly for the states of the exit set";
      if (sp_bit(el, i) != sp_bit(es, i)) return "onentry content did not run exactly for the entered states";
    }
    for (int t = 0; t < D_T; t++) if (d_tlognum[t] >= 0 && sp_bit(tl, t) != sel[t]) return "transition content did not run exactly for the selected transitions";
#endif
#if D_SEQ > 0
    if (seq_bad) return seq_bad;
    if (seq_expect != 0) return "a handler block that started did not run to its end";
    for (int i = 1; i < D_N; i++) {
      if (d_seq_onexit[i] && seq_started[d_seq_onexit[i]] != sp_bit(xs, i)) return "an onexit block did not run exactly once for an exited state / ran for a state that is not exited";
      if (d_seq_onentry[i] && seq_started[d_seq_onentry[i]] != sp_bit(es, i)) return "an onentry block did not run exactly once for an entered state / ran for a state that is not entered";
    }
    for (int t = 0; t < D_T; t++) {
      if (!d_seq_trans[t]) continue;
      if (sp_proper(d_tsrc[t])) { if (seq_started[d_seq_trans[t]] != sel[t]) return "transition content did not run exactly once for a taken transition"; }
      else if (!(seq_started[d_seq_trans[t]] == 0 || (seq_started[d_seq_trans[t]] == 1 && sp_bit(es, d_parent[d_tsrc[t]])))) return "the content of an <initial> / default history transition ran more than once or without its parent being entered";
    }
#endif
  after_spec:;
  }
  if (r == USCXML_ERR_OK && legal_config(c->config))
    for (int f = 1; f < D_N; f++) {
      if (d_kind[f] != K_FINAL || !sp_bit(c->config, f) || sp_bit(pre->config, f)) continue;
      int p = d_parent[f];
      if (p == 0) { if (!(c->flags & USCXML_CTX_TOP_LEVEL_FINAL)) return "final child of <scxml> entered without TOP_LEVEL_FINAL"; continue; }
      if (!sp_bit(done_set, p)) return "done.state.<parent> not raised for an entered final state";
    }
  if (r == USCXML_ERR_OK && legal_config(c->config)) {
    /* no other done event: done.state.<s> needs an active final child of s, or s parallel with all regions in a final state */
    int in_final[D_N];
    for (int i = D_N - 1; i >= 0; i--) {
      in_final[i] = 0;
      if (!sp_bit(c->config, i)) continue;
      if (sp_compound(i)) { for (int j = i + 1; j < D_N; j++) if (sp_child(j, i) && d_kind[j] == K_FINAL && sp_bit(c->config, j)) in_final[i] = 1; }
      else if (d_kind[i] == K_PARALLEL) { in_final[i] = 1; for (int j = i + 1; j < D_N; j++) if (sp_child(j, i) && sp_proper(j) && !in_final[j]) in_final[i] = 0; }
    }
    for (int s = 0; s < D_N; s++) {
      if (!sp_bit(done_set, s)) continue;
      int why = 0;
      for (int f = 1; f < D_N; f++) {
        if (d_kind[f] != K_FINAL || !sp_bit(c->config, f)) continue;
        if (d_parent[f] == s && s != 0) why = 1;
        if (d_parent[f] != 0 && d_parent[d_parent[f]] == s && d_kind[s] == K_PARALLEL && in_final[s]) why = 1;
      }
      if (!why) { static char msg[200]; snprintf(msg, sizeof msg, "done.state.%s raised although it has no active final child / not all of its regions are in a final state", d_id[s] ? d_id[s] : "<scxml>"); return msg; }
    }
  }
  return 0;
}

int main(int argc, char **argv) {
  if (argc >= 6 && !strcmp(argv[1], "pre")) {
    uscxml_ctx pre; init_ctx(&pre);
    pre.flags = (unsigned char)atoi(argv[2]);
    unhex(argv[3], pre.config, USCXML_MAX_NR_STATES_BYTES);
    unhex(argv[4], pre.history, USCXML_MAX_NR_STATES_BYTES);
    nbits = atoi(argv[5]); skiphist = argc > 6 && !strcmp(argv[6], "skiphist");
    if (argc > 7 || (argc > 6 && strcmp(argv[6], "skiphist"))) unhex(argv[argc - 1], pre.invocations, USCXML_MAX_NR_STATES_BYTES);
    int pre_ok = (pre.flags == 0) || ((pre.flags & USCXML_CTX_INITIALIZED) && !(pre.flags & USCXML_CTX_TRANSITION_FOUND) && ok_state(&pre));
    printf("pre-state flags=%d ", pre.flags); show("config", pre.config); printf(" "); show("history", pre.history); printf(" legal=%d\n", pre_ok);
    for (answers = 0; answers < (1ULL << nbits); answers++) {
      uscxml_ctx c = pre; apos = 0; done_bad = 0; done_twice = 0; memset(done_set, 0, sizeof done_set); new_pass(); int_last_null = 0; order_bad = 0; memset(xl, 0, sizeof xl); memset(el, 0, sizeof el); memset(tl, 0, sizeof tl); log_bad = 0; log_phase = 0; log_last = 0;
#if D_SEQ > 0
      seq_expect = 0; seq_bad = 0; memset(seq_started, 0, sizeof seq_started); memset(seq_loop, 0, sizeof seq_loop); fe_budget = 2;
#endif
     
      int r = uscxml_step(&c);
      const char *why = post_clauses(&pre, &c, r, pre_ok);
      if (why) { printf("REPRODUCED answers=0x%llx ret=%d: %s; ", answers, r, why); show("config", c.config); printf(" "); show("history", c.history); printf("\n"); return 1; }
      if ((r == USCXML_ERR_OK || r == USCXML_ERR_IDLE || r == USCXML_ERR_DONE) && pre_ok && !(c.flags & USCXML_CTX_FINISHED) && !ok_state(&c)) {
        printf("REPRODUCED answers=0x%llx ret=%d ", answers, r); show("config", c.config); printf(" "); show("history", c.history); printf(" is not a legal configuration / consistent history\n");
        return 1;
      }
    }
    printf("HELD for all %llu answer patterns\n", 1ULL << nbits);
    return 0;
  }
  if (argc >= 4 && !strcmp(argv[1], "reach")) {
    int steps = atoi(argv[2]); nbits = atoi(argv[3]); skiphist = argc > 4;
    for (answers = 0; answers < (1ULL << nbits); answers++) {
      uscxml_ctx c; init_ctx(&c); apos = 0;
      for (int s = 0; s < steps; s++) {
        int r = uscxml_step(&c);
        if (r != USCXML_ERR_OK && r != USCXML_ERR_IDLE) break;
        if (c.flags & (USCXML_CTX_FINISHED | USCXML_CTX_TOP_LEVEL_FINAL)) break;
        if (!ok_state(&c)) {
          printf("REPRODUCED reachable from the pristine context: answers=0x%llx after step %d ", answers, s); show("config", c.config); printf(" "); show("history", c.history); printf("\n");
          return 1;
        }
      }
    }
    printf("HELD on all runs\n");
    return 0;
  }
  if (argc >= 4 && !strcmp(argv[1], "bfs")) {
    /* breadth-first over the contexts reachable from the pristine one: <steps> levels, every answer pattern of <bits>
       bits per step, visited contexts deduplicated (flags, config, history, invocations) */
    int steps = atoi(argv[2]); nbits = atoi(argv[3]); skiphist = argc > 4;
    enum { MAXS = 20000 };
    static uscxml_ctx seen[MAXS]; static int parent[MAXS]; static unsigned long long how[MAXS]; static int depth[MAXS];
    int nseen = 0, head = 0;
    init_ctx(&seen[0]); parent[0] = -1; depth[0] = 0; nseen = 1;
    while (head < nseen) {
      int cur = head++;
      if (depth[cur] >= steps) continue;
      for (answers = 0; answers < (1ULL << nbits); answers++) {
        uscxml_ctx c = seen[cur]; apos = 0;
        int r = uscxml_step(&c);
        if (r != USCXML_ERR_OK && r != USCXML_ERR_IDLE) continue;
        if (c.flags & (USCXML_CTX_FINISHED | USCXML_CTX_TOP_LEVEL_FINAL)) continue;
        if (!ok_state(&c)) {
          printf("REPRODUCED reachable from the pristine context in %d steps: ", depth[cur] + 1); show("config", c.config); printf(" "); show("history", c.history); printf("\n  path (answer pattern per step, newest first): 0x%llx", answers);
          for (int k = cur; parent[k] >= 0; k = parent[k]) printf(" <- 0x%llx", how[k]);
          printf("\n");
          return 1;
        }
        int known = 0;
        for (int k = 0; k < nseen && !known; k++)
          known = seen[k].flags == c.flags && !memcmp(seen[k].config, c.config, sizeof c.config) && !memcmp(seen[k].history, c.history, sizeof c.history) && !memcmp(seen[k].invocations, c.invocations, sizeof c.invocations);
        if (!known && nseen < MAXS) { seen[nseen] = c; parent[nseen] = cur; how[nseen] = answers; depth[nseen] = depth[cur] + 1; nseen++; }
      }
    }
    printf("HELD on all %d contexts reachable within %d steps\n", nseen, steps);
    return 0;
  }
  fprintf(stderr, "usage: replay_genc pre <flags> <confighex> <historyhex> <bits> | reach <steps> <bits>\n");
  return 2;
}
