"""C15 - Data <-> JSON lossless, parser robust (claimed in part; see DESIGN.md section 3, C15)."""
import importlib.util
import json
import os
import sys
import time

import common


def _load(name, path):
    spec = importlib.util.spec_from_file_location(name, path)
    m = importlib.util.module_from_spec(spec)
    spec.loader.exec_module(m)
    return m


def check(tier):
    t0 = time.time()
    from concurrent.futures import ThreadPoolExecutor
    jsmn = _load('jsmn_run', os.path.join(common.VERIF, 'engines/jsmn/run.py'))
    jsn = _load('json_run', os.path.join(common.VERIF, 'engines/extract/run_json.py'))
    with ThreadPoolExecutor(2) as ex:
        fa = ex.submit(jsmn.run, tier)
        fb = ex.submit(jsn.run, tier)
        parts = [fa.result()] + fb.result()
    expl = ('Layer (a): every function of the unmodified contrib/src/jsmn/jsmn.c is verified against a contract '
            '(pre/postconditions, frame, loop invariants + decreases for all 6 loops) with goto-instrument --dfcc; '
            'inputs of any length up to the stated object size, no loop unwound: counted as proved obligations. '
            'Layers (b)/(c): Data::jsonEscape/jsonUnescape (round trip, and the escaped text is one string token for the real '
            'jsmn_parse_string) and the token walk of Data::fromJSON (every read of the token array inside the allocation, no '
            'pop/back on an empty stack, values attached to the enclosing container, object keys and string atoms taken from token text that went through jsonUnescape, termination) are mechanically extracted to C; '
            'the walk is checked against the CONTRACT of jsmn_parse (tokens_ok), whose structural clauses are checked bounded against '
            'the real jsmn.c; two slices of Data::toJSON (the statement writing an object key, the branches writing an atom) emit text the real '
            'jsmn_parse_string reads back as one string token whose unescaped content is the key / atom (O_tojson). These layers are BOUNDED and reported in the bounded_* counters only. The rest of Data::toJSON, Data tree building and '
            'Event<->Data are C++ containers outside CBMC\'s reach and are not covered.')
    return common.finish('C15', tier, 'proof', parts, t0, expl)


def replay(path):
    d = json.load(open(path))
    if d.get('engine') == 'jsmn':
        return _load('jsmn_run', os.path.join(common.VERIF, 'engines/jsmn/run.py')).replay(path)
    return _load('json_run', os.path.join(common.VERIF, 'engines/extract/run_json.py')).replay(path)
