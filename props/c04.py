"""C04 - generated ANSI-C machine: memory safety, frame, life cycle, dequeue order (DESIGN.md section 3, C04)."""
from props import genc_common


def want(key, tag, f):
    if key == 'T':
        return tag == 'C04'
    if key == 'P':
        return False   # Promela copy of the tables: C05
    if key in ('A', 'G'):
        return True
    return tag != 'C02'   # part B: everything except the C02 legality assertions


def check(tier):
    expl = ('Per emitted document (byte-for-byte output of uscxml-transform -tc built from /repo): the emitted uscxml_step(), executable-content '
            'functions and bit_* helpers are verified with the CONCRETE emitted tables for ALL contexts (arbitrary flags, configuration, history, '
            'invocations, event) and ALL callback behaviours: every pointer/bounds/overflow/conversion check CBMC generates inside the emitted '
            'functions, the dfcc frame of the contract on uscxml_step (only ctx->flags/event/config/history/invocations/initialized_data are '
            'assigned), life-cycle postconditions (FINISHED absorbing, IDLE leaves configuration unchanged), dequeue order (internal before '
            'external, external only at a stable point), callback argument validity, and generator-side sizing facts. The unbounded '
            'DEQUEUE_EVENT loop is closed by a loop contract + glue lemma. Function against a spec function (engines/genc/spec_step.h, from Appendix D '
            'of the Recommendation over independently read document facts): after every step that returns OK from a legal pre-state the configuration '
            'equals sps_config(configuration, history, sps_select(answers of is_matched/is_true)) - obligations C04.select / C04.step; for charts with '
            'the log convention (generated charts, corpus/c12) the onexit / transition / onentry blocks that ran are exactly exit set / optimal '
            'transition set / entry set, in the prescribed order (C04.content / C04.order); for corpus/c17 (numbered executable elements) every callback is invoked for exactly the element the control flow of the handler block prescribes - sequence, <if>/<elseif>/<else> chains, <foreach> - with the flow read from the XML; invocations are managed only at the end of a macrostep; done events C04.done. In documents with nested histories '
            'the spec-function clauses are asserted only for steps whose entry set involves no history element. The SECOND sentence of C04 (no out-of-bounds access) is decided for all contexts; of the FIRST '
            'sentence the reference is the Recommendation\'s algorithm, NOT the interpreter\'s trace - the interpreter is C++ and out of reach.')
    return genc_common.account('C04', tier, want, expl, 'translation_validation')


def replay(path):
    return genc_common.replay(path)
