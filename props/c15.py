"""C15 - Data <-> JSON lossless, parser robust (claimed in part; see DESIGN.md section 3, C15)."""
import importlib.util
import json
import os
import sys
import time

import common


def _load(name, path):
    spec = importlib.util.spec_from_file_location(name, path)
    m = importlib.util.module_from_spec(spec)
    spec.loader.exec_module(m)
    return m


def check(tier):
    t0 = time.time()
    parts = []
    jsmn = _load('jsmn_run', os.path.join(common.VERIF, 'engines/jsmn/run.py'))
    parts.append(jsmn.run(tier))
    js = os.path.join(common.VERIF, 'engines/extract/run_json.py')
    if os.path.exists(js):
        parts += _load('json_run', js).run(tier)
    expl = ('Layer (a): every function of the unmodified contrib/src/jsmn/jsmn.c is verified against a contract '
            '(pre/postconditions, frame, loop invariants + decreases for all 6 loops) with goto-instrument --dfcc; '
            'inputs of any length up to the stated object size, no loop unwound: counted as proved obligations. '
            'Layers (b)/(c) (jsonEscape/jsonUnescape and the token walk of Data::fromJSON, mechanically extracted to C) '
            'are bounded checks and are reported in the bounded_* counters only. Data::toJSON, Data tree building and '
            'Event<->Data are C++ containers outside CBMC\'s reach and are not covered.')
    return common.finish('C15', tier, 'proof', parts, t0, expl)


def replay(path):
    d = json.load(open(path))
    if d.get('engine') == 'jsmn':
        return _load('jsmn_run', os.path.join(common.VERIF, 'engines/jsmn/run.py')).replay(path)
    return _load('json_run', os.path.join(common.VERIF, 'engines/extract/run_json.py')).replay(path)
