#!/bin/bash
# Independent confirmation of a seeded change in its scratch worktree:
#   usage: seed_confirm.sh <worktree> <seed-dir> <out-dir>
# applies patch.diff, rebuilds, runs the baseline suite (-j8) and compares with the stable set, runs the
# demonstration (must FAIL), reverts, rebuilds, runs the demonstration again (must PASS).
WT=$1; SD=$2; OUT=$3
mkdir -p "$OUT"
cd "$WT" || exit 2
git checkout -q -- . 
git apply "$SD/patch.diff" || { echo "patch does not apply" > "$OUT/confirm.txt"; exit 2; }
cmake --build _build -j12 > "$OUT/build_patched.log" 2>&1 || { echo "patched tree does not build" > "$OUT/confirm.txt"; git checkout -q -- .; exit 2; }
ctest --test-dir _build -j8 --timeout 900 --output-junit "$OUT/junit_patched.xml" > "$OUT/ctest_patched.log" 2>&1
python3 /tmp/tools/baseline_compare.py "$OUT/junit_patched.xml" > "$OUT/baseline_patched.txt" 2>&1
SUITE=$?
if [ $SUITE -ne 0 ]; then
  # timing-sensitive tests can fail under load: re-run the ones that did not pass, one at a time
  grep "NOT PASSED" "$OUT/baseline_patched.txt" | awk '{print $3}' > "$OUT/retry.txt"
  SUITE=0
  while read t; do ctest --test-dir _build -R "^$t\$" --timeout 900 > "$OUT/retry_$(echo $t | tr '/' '_').log" 2>&1 || SUITE=1; done < "$OUT/retry.txt"
fi
( cd "$SD" && sh ./run.sh ) > "$OUT/demo_patched.log" 2>&1; DP=$?
git checkout -q -- .
cmake --build _build -j12 > "$OUT/build_clean.log" 2>&1
( cd "$SD" && sh ./run.sh ) > "$OUT/demo_clean.log" 2>&1; DC=$?
echo "suite_with_patch=$([ $SUITE -eq 0 ] && echo pass || echo FAIL) demo_with_patch_rc=$DP demo_clean_rc=$DC" > "$OUT/confirm.txt"
cat "$OUT/confirm.txt"
